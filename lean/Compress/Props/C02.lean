/-
C02 — Brotli decoding is exactly RFC 7932 (brotli.Reader).

`Compress.Brotli.Spec` is an executable reading of RFC 7932 (static dictionary as
a parameter, loaded from /repo on every run), validated on every run against
libbrotlidec AND brotli.Reader: verdict, output length and hash for every input of
family brd, reject class on cuts of valid streams, and the 121 dictionary
transforms against Go's transformWord.

`Compress.Brotli.Impl` (+ ImplPrefix, ImplContext) is the Go-shaped model of
/repo/brotli/reader.go, bit_reader.go, prefix.go, prefix_decoder.go, context.go and
dict_decoder.go (Read loop with the toRead/err latch, resumable steps, readCommands
with its labels and stepState re-entry, two-level prefix tables as Init builds them,
context maps with RLE and the move-to-front short cut, ring of last distances, window
with lazy growth), validated Read call by Read call against the real reader (family
brr).  The second half of this file states its refinement to the specification, layer
by layer (proofs: Compress/Proofs/BrImpl*.lean).
Property theorems only.
-/
import Compress.Proofs.Window
import Compress.Proofs.BitIO
import Compress.Proofs.PrefixTables
import Compress.Proofs.BrotliSpec
import Compress.Proofs.BrotliCut
import Compress.Proofs.BrImplAll

namespace Compress.Props.C02
open Compress

open Compress.Proofs.Window Compress.Window in
/-- brotli's dictDecoder: for every window size, every previous capacity and every legal sequence of literals and copies the bytes handed out are the append-only LZ77 output. -/
theorem C02_window (useTry : Bool) (size prevCap : Nat) (hs : 1 ≤ size) (ops : List Op)
    (hl : Legal size [] ops) :
    (runAll useTry size prevCap ops).1 = specRun [] ops :=
  Compress.Proofs.Window.window_refines useTry size prevCap hs ops hl

open Compress.Proofs.BitIO Compress Compress.Prefix in
/-- the bit reader under brotli.Reader returns the plain bit fields for every source shape. -/
theorem C02_bitreader (data : List UInt8) (big buffered : Bool) (adv : List Nat) (ns : List Nat)
    (hn : ∀ n ∈ ns, n ≤ 56) :
    readScript (BR.init { data := data, bufAdv := adv, buffered? := buffered } big) ns =
      specReadScript (streamBits big data) ns :=
  Compress.Proofs.BitIO.reader_refines data big buffered adv ns hn

open Compress.Proofs.PrefixTables Compress Compress.Prefix in
/-- the two-level table decoder returns the unique code that prefixes the stream. -/
theorem C02_prefix_decoder (cs : List Code) (h : GoodCodes cs) (c : Code) (hc : c ∈ cs) (rest : Bits) :
    (Decoder.init cs).readSymbol (c.word ++ rest) = some (c.sym, rest) :=
  Compress.Proofs.PrefixTables.decoder_readSymbol cs h c hc rest

open Compress.Brotli.Proofs Compress Compress.Brotli in
/-- specification: the empty input is an unexpected end, not a stream. -/
theorem C02_spec_empty (dict : ByteArray) : decode dict [] = ⟨#[], .unexpectedEOF⟩ :=
  Compress.Brotli.Proofs.decode_nil dict

open Compress.Brotli.Proofs Compress Compress.Brotli in
/-- specification: the one-byte stream 0x06 (ISLAST, ISLASTEMPTY) is complete with empty output, whatever follows it and whatever the dictionary. -/
theorem C02_spec_last_empty (dict : ByteArray) (trailing : List UInt8) :
    decode dict (0x06 :: trailing) = ⟨#[], .ok 8⟩ :=
  Compress.Brotli.Proofs.decode_lastEmpty dict trailing

open Compress.Brotli.Proofs Compress Compress.Brotli in
/-- specification: the reserved WBITS pattern is rejected. -/
theorem C02_spec_reserved_wbits (dict : ByteArray) (trailing : List UInt8) :
    decode dict (0x11 :: trailing) = ⟨#[], .corrupt⟩ :=
  Compress.Brotli.Proofs.decode_reservedWindowBits dict trailing

open Compress.Brotli.Proofs Compress Compress.Brotli in
/-- the transform table has the 121 entries of RFC 7932 appendix B. -/
theorem C02_spec_transforms  : transforms.size = 121 :=
  Compress.Brotli.Proofs.transforms_size 

open Compress.Brotli.Proofs Compress Compress.Brotli in
/-- the word-length tables account for exactly the 122,784 bytes of the static dictionary. -/
theorem C02_spec_dictionary_layout  : doffset 24 + 24 * nwords 24 = 122784 :=
  Compress.Brotli.Proofs.doffset_last 

open Compress.Brotli.Proofs Compress Compress.Brotli in
/-- a compressed meta-block evaluated by the kernel (cross-checked with libbrotlidec). -/
theorem C02_spec_compressed_example  :
    decode .empty [0x1b, 0x11, 0x00, 0x00, 0x24, 0xc3, 0xc4, 0xc6, 0x42, 0x9b, 0x20, 0xd2]
      = ⟨#[97, 98, 99, 97, 98, 99, 97, 98, 99, 97, 98, 99, 97, 98, 99, 97, 98, 99], .ok 96⟩ :=
  Compress.Brotli.Proofs.decode_compressed_abc 

open Compress.Proofs.BrotliCut Compress Compress.Brotli Compress.Proofs.BrCut in
/-- **Specification, cut streams (C09/C12 for Brotli).** A stream the specification accepts, cut at any byte before its end, ends with unexpected EOF - never success, never corrupt - and what was produced is a prefix of the full output. -/
theorem C02_spec_cut (dict : ByteArray) (bytes : List UInt8) (out : Array UInt8) (n : Nat)
    (h : decode dict bytes = { out := out, verdict := .ok n }) (k : Nat) (hk : 8 * k < n) :
    (decode dict (bytes.take k)).verdict = .unexpectedEOF ∧
    (decode dict (bytes.take k)).out.toList <+: out.toList :=
  Compress.Proofs.BrotliCut.decode_cut dict bytes out n h k hk

open Compress.Proofs.BrotliCut Compress Compress.Brotli Compress.Proofs.BrCut in
/-- **Specification, trailing bytes.** Whatever follows a complete stream does not change the result. -/
theorem C02_spec_trailing_ignored (dict : ByteArray) (bits ext : Bits) (out : Array UInt8) (n : Nat)
    (h : decodeBits dict bits = { out := out, verdict := .ok n }) :
    decodeBits dict (bits.take n ++ ext) = { out := out, verdict := .ok n } :=
  Compress.Proofs.BrotliCut.decodeBits_ext dict bits ext out n h

open Compress.Proofs.BrotliCut Compress Compress.Brotli Compress.Proofs.BrCut in
/-- the consumed count of an accepted stream lies within the input and is a whole number of bytes. -/
theorem C02_spec_consumed (dict : ByteArray) (bits : Bits) (out : Array UInt8) (n : Nat)
    (h8 : bits.length % 8 = 0)
    (h : decodeBits dict bits = { out := out, verdict := .ok n }) : n ≤ bits.length ∧ n % 8 = 0 :=
  Compress.Proofs.BrotliCut.consumed_bounds dict bits out n h8 h

/-! ## the Go-shaped model of brotli.Reader refines the specification -/

-- (the closed-term decoders are tables of up to 256 codes: keep the elaborator from evaluating them
-- whenever it looks at a statement that mentions them)
attribute [local irreducible] Compress.Brotli.Impl.decWinBits Compress.Brotli.Impl.decCounts
  Compress.Brotli.Impl.decMaxRLE

open Compress.Proofs.BrImpl Compress Compress.Brotli in
/-- **Layer (a), Read loop.** `Trace dict s X e`: the step machine started in `s` hands out exactly `X`
    and then latches `e`, every silent step consuming input.  Whoever has a trace of the initial state
    knows `Impl.run` for EVERY schedule of Read sizes (zero-length reads included, last entry positive):
    all of `X`, in order, then `e`; the reader ends latched. -/
theorem C02_read_loop (dict : ByteArray) (bytes full : List UInt8) (e : Impl.BErr)
    (T : Trace dict (Impl.init bytes) full e) (sched : List Nat) (hs : ∀ n, sched.getLast? = some n → 0 < n)
    (fuel : Nat) (hf : full.length + sched.length + 2 ≤ fuel) :
    ∃ s', Impl.run dict fuel bytes sched = (full, some e, s') ∧ s'.toRead = [] ∧ s'.err = some e :=
  Compress.Proofs.BrImpl.run_of_trace dict bytes full e T sched hs fuel hf

open Compress.Proofs.BrImpl Compress Compress.Brotli in
/-- **Layer (a), schedule independence.** Two schedules of Read sizes deliver the same bytes and end with the same error. -/
theorem C02_schedule_independent (dict : ByteArray) (bytes full : List UInt8) (e : Impl.BErr)
    (T : Trace dict (Impl.init bytes) full e) (s1 s2 : List Nat)
    (h1 : ∀ n, s1.getLast? = some n → 0 < n) (h2 : ∀ n, s2.getLast? = some n → 0 < n)
    (f1 f2 : Nat) (hf1 : full.length + s1.length + 2 ≤ f1) (hf2 : full.length + s2.length + 2 ≤ f2) :
    (Impl.run dict f1 bytes s1).1 = (Impl.run dict f2 bytes s2).1 ∧
    (Impl.run dict f1 bytes s1).2.1 = (Impl.run dict f2 bytes s2).2.1 :=
  Compress.Proofs.BrImpl.run_schedule_independent dict bytes full e T s1 s2 h1 h2 f1 f2 hf1 hf2

open Compress.Proofs.BrImpl Compress Compress.Brotli in
/-- **Layer (a), prefix.** Whatever the schedule (zeros, a zero at the end) and however far the run got, what has been delivered is a prefix of the trace. -/
theorem C02_read_prefix (dict : ByteArray) (bytes full : List UInt8) (e : Impl.BErr)
    (T : Trace dict (Impl.init bytes) full e) (sched : List Nat) (fuel : Nat) :
    (Impl.run dict fuel bytes sched).1 <+: full :=
  Compress.Proofs.BrImpl.run_prefix dict bytes full e T sched fuel

open Compress.Proofs.BrImpl Compress Compress.Brotli in
/-- **Layer (a), sticky error.** Once the error is latched and nothing is pending, every further `Read` returns it and changes nothing. -/
theorem C02_sticky_error (dict : ByteArray) (fuel : Nat) (s : Impl.State) (n : Nat) (e : Impl.BErr)
    (hT : s.toRead = []) (hE : s.err = some e) : Impl.read dict (fuel+1) s n = (s, [], some e) :=
  Compress.Proofs.BrImpl.read_latched dict fuel s n e hT hE

open Compress.Proofs.BrImpl Compress Compress.Brotli in
/-- **Layer (b), stream header.** WBITS through the table `decWinBits` (symbol 0 = the reserved pattern → corrupted) = section 9.1. -/
theorem C02_stream_header : WinBitsSim := Compress.Proofs.BrImpl.winBitsSim

open Compress.Proofs.BrImpl Compress Compress.Brotli in
/-- **Layer (b), meta-block header.** ISLAST, ISLASTEMPTY, MNIBBLES, the reserved bit, MSKIPBYTES, MSKIPLEN, MLEN (with the shortest-form checks) and ISUNCOMPRESSED as `readBlockHeader` reads them = the header part of the specification's meta-block (`specHdr`, split off by `readMetaBlocks_succ`): both succeed at the same bit with the same fields, or both fail. -/
theorem C02_block_header : SimRel HdrRel Impl.readHdr specHdr := Compress.Proofs.BrImpl.hdr_sim

open Compress.Proofs.BrImpl Compress Compress.Brotli in
/-- the specification's meta-block loop is "header, then body". -/
theorem C02_spec_metablock_split (dict : ByteArray) (ws fuel : Nat) (ds : Dists) :
    readMetaBlocks dict ws (fuel+1) ds = specHdr >>= specBody dict ws (readMetaBlocks dict ws fuel) ds :=
  Compress.Proofs.BrImpl.readMetaBlocks_succ dict ws fuel ds

open Compress.Proofs.BrImpl Compress Compress.Brotli in
/-- **Layer (d), tables.** `prefixDecoder.Init(codes, assignCodes = true)` on ≥ 2 codes with increasing symbols below `n ≤ 2^27`, lengths 1..15 and Kraft sum one succeeds, and `ReadSymbol` on its two-level table (9-bit first level, link tables numbered by reversed prefix) reads exactly what the specification's counting decoder reads for the canonical code with these lengths. -/
theorem C02_prefix_tables : InitTreeRel := Compress.Proofs.BrImpl.initTreeRel

open Compress.Proofs.BrImpl Compress Compress.Brotli in
/-- **Layer (d), refusal.** Symbols not increasing or Kraft sum not one: `Init` panics (never `io.EOF`). -/
theorem C02_prefix_tables_refuse : InitFails := Compress.Proofs.BrImpl.initFails

open Compress.Proofs.BrImpl Compress Compress.Brotli in
/-- **Layer (d), prefix code definitions.** `ReadPrefixCode` (simple codes with the sorting networks, complex codes with the code-length code, repeat codes 16/17 and their modification of the previous repeat, the space accounting, `len(codes) < 2`, `Init`) = sections 3.4/3.5 of the specification for every alphabet of 2..704 symbols: both succeed at the same bit with equivalent decoders whose symbols lie in the alphabet, or both fail. -/
theorem C02_prefix_codes : PrefixSim := Compress.Proofs.BrImpl.prefixSim

open Compress.Proofs.BrImpl Compress Compress.Brotli in
/-- **Layer (e), context maps.** NTREES, RLEMAX, the run-length coded map and the inverse move-to-front transform — including `MoveToFront.Decode`'s short cut of resetting only the first `256 - tail` dictionary entries — = section 7.3. -/
theorem C02_context_map (mtf : Impl.Mtf) (hm : MtfOK mtf) (size : Nat) :
    SimRel (fun (a : Nat × Array Nat × Impl.Mtf) (b : Nat × Array Nat) =>
        a.1 = b.1 ∧ a.2.1 = b.2 ∧ MtfOK a.2.2 ∧ a.2.1.size = size ∧ 1 ≤ a.1 ∧ a.1 ≤ 256 ∧ ∀ v ∈ a.2.1, v < a.1)
      (do let nt ← Impl.readSymbol Impl.decCounts
          let (cm, m') ← if nt ≥ 2 then Impl.readContextMap mtf size nt else pure (Array.replicate size 0, mtf)
          pure (nt, cm, m'))
      (Brotli.readContextMap size) :=
  @Compress.Proofs.BrImpl.contextMap_sim Compress.Proofs.BrImpl.prefixSim (@Compress.Proofs.BrImpl.countsSim)
    (@Compress.Proofs.BrImpl.maxRLESim) mtf hm size

open Compress.Proofs.BrImpl Compress Compress.Brotli in
/-- **Layer (e), block switch.** `readBlockSwitch` (type symbol 0 / 1 / t with the wrap by subtraction, the new count) = section 6. -/
theorem C02_block_switch (bd : Impl.BlockDec) (b : Blocks) (h : BlkRel bd b) (h2 : 2 ≤ b.ntypes) :
    SimRel (fun bd' b' => BlkRel bd' b' ∧ bd'.prefixes = bd.prefixes) (Impl.readBlockSwitch bd) (Brotli.readBlockSwitch b) :=
  Compress.Proofs.BrImpl.blockSwitch_sim bd b h h2

open Compress.Proofs.BrImpl Compress Compress.Brotli in
/-- **Layer (e), distances.** Short codes through `distShortLUT` on the ring of last distances, direct codes, long codes through `distLongLUT` = section 4 (ring values positive: an invariant of the ring). -/
theorem C02_distance (s : Impl.State) (h : Header) (c : Cmd) (sym : Nat)
    (hnp : s.npostfix = h.npostfix) (hnd : s.ndirect = h.ndirect) (hp : h.npostfix ≤ 3)
    (h0 : s.dists0 = c.d1) (h1 : s.dists1 = c.d2) (h2 : s.dists2 = c.d3) (h3 : s.dists3 = c.d4)
    (hd1 : 0 < c.d1) (hd2 : 0 < c.d2) (hd3 : 0 < c.d3) (hd4 : 0 < c.d4)
    (hsym : sym < 16 + h.ndirect + (48 <<< h.npostfix)) :
    SimRel (fun (a : Int) (b : Option Nat) => (a ≤ 0 ∧ b = none) ∨ (0 < a ∧ b = some a.toNat))
      (Impl.decodeDistance s sym) (Brotli.readDistance h c sym) :=
  Compress.Proofs.BrImpl.decodeDistance_sim s h c sym hnp hnd hp h0 h1 h2 h3 hd1 hd2 hd3 hd4 hsym

open Compress.Proofs.BrImpl Compress Compress.Brotli in
/-- **Layer (e), static dictionary.** The word `copyStaticDict` computes (offset, index, transform number by shift) = section 8, for the 122,784-byte dictionary. -/
theorem C02_static_word (sd : ByteArray) (hsd : sd.size = 122784) (cpyLen wordIdx : Nat) :
    (match Impl.staticWord sd cpyLen wordIdx with
     | .ok w => Brotli.dictionaryWord sd cpyLen wordIdx = some w
     | .error e => e = .corrupted ∧ Brotli.dictionaryWord sd cpyLen wordIdx = none) :=
  Compress.Proofs.BrImpl.staticWord_eq sd hsd cpyLen wordIdx

open Compress.Proofs.BrImpl Compress Compress.Brotli in
/-- **Layers (d)+(e), compressed meta-block header.** `readPrefixCodes` = `readCompressedHeader` from related states: both fail, or the model is ready for `readCommands` with tables, context maps, block decoders and ring corresponding to the specification's (`CmdRel`). -/
theorem C02_compressed_header : PrefixCodesSim := Compress.Proofs.BrImpl.prefixCodesSim

open Compress.Proofs.BrImpl Compress Compress.Brotli in
/-- **Layer (f), the command loop.** From a model state ready for `readCommands` (tables, context maps, block decoders and ring corresponding to the specification's `Header`/`Cmd`, window = output so far with zero-initialised history, last distances within 16 of the largest allowed distance, window ≥ 2 bytes) the reader runs through the steps of `readCommands` — labels startCommand / readLiterals / readDistance / copyDynamicDict / copyStaticDict / finishCommand, suspension with the window flushed whenever it is full, re-entry through `stepState` — exactly like the specification's non-resumable `readCommands`: if that succeeds the model is at the next meta-block boundary with the same output, bit position and ring; if it fails so does the model, never with `io.EOF`, outputs agreeing (statement `CommandsSimZ` in Proofs/BrImplCmd.lean). -/
theorem C02_command_loop (dict : ByteArray) (hdict : dict.size = 122784) : CommandsSimZ dict :=
  Compress.Proofs.BrImpl.commands_sim dict hdict

open Compress.Proofs.BrImpl Compress Compress.Brotli in
/-- **Stream level (layers (b), (c) and the induction over meta-blocks).** Given the simulation of compressed meta-blocks, the reader model on `bytes` ends like the specification's `readStream`: accepted ⇒ `io.EOF` after exactly its output; rejected ⇒ another error with agreeing output. Stream header, meta-block headers, metadata and uncompressed meta-blocks (window writes, flushes at a full window, growth) and the end of the stream are handled here without hypotheses. -/
theorem C02_stream_level (dict : ByteArray) (hC : CompressedSimZ dict) (bytes : List UInt8) :
    Outcome dict (Impl.init bytes) [] (8 * bytes.length)
      (readStream dict { bits := Bits.ofBytes bytes, used := 0, out := #[] }) :=
  Compress.Proofs.BrImpl.stream_sim dict Compress.Proofs.BrImpl.winBitsSim hC bytes

open Compress.Proofs.BrImpl Compress Compress.Brotli in
/-- **C02, the refinement theorem.** `dict` is the static dictionary (any byte array of the right
    size: 122,784 bytes).  For every byte string and every schedule of Read sizes (zero-length reads
    included, the repeating last entry positive):
    * the specification accepts ⇒ with enough fuel the model delivers exactly the specification's
      output and ends with `io.EOF`; with any fuel it has delivered a prefix of it;
    * the specification rejects ⇒ the model ends with another error (never `io.EOF`) after delivering
      bytes that agree with the specification's output position by position; with any fuel it has
      delivered a prefix of that.
    (Before the repair /repo a4683a3 the reject direction needed a size cap: the Go reader never
    enforced the block count 2^24 of a single-type block category — found by this proof, see DESIGN.md D14.) -/
theorem C02_refines_spec (dict : ByteArray) (hdict : dict.size = 122784) (bytes : List UInt8) (sched : List Nat)
    (hs : ∀ n, sched.getLast? = some n → 0 < n) :
    (∀ n, (decode dict bytes).verdict = .ok n →
      (∀ fuel, (decode dict bytes).out.size + sched.length + 2 ≤ fuel →
        (Impl.run dict fuel bytes sched).1 = (decode dict bytes).out.toList ∧
        (Impl.run dict fuel bytes sched).2.1 = some .eof) ∧
      (∀ fuel, (Impl.run dict fuel bytes sched).1 <+: (decode dict bytes).out.toList)) ∧
    ((∀ n, (decode dict bytes).verdict ≠ .ok n) →
      ∃ X e, e ≠ .eof ∧ Agree X (decode dict bytes).out.toList ∧
        (∀ fuel, X.length + sched.length + 2 ≤ fuel →
          (Impl.run dict fuel bytes sched).1 = X ∧ (Impl.run dict fuel bytes sched).2.1 = some e) ∧
        (∀ fuel, (Impl.run dict fuel bytes sched).1 <+: X)) :=
  Compress.Proofs.BrImpl.refines_spec dict hdict bytes sched hs

open Compress.Proofs.BrImpl Compress Compress.Brotli in
/-- the statement of C02 on the model in one piece (`RefinesSpec`): with enough fuel the run ends with an
    error, `io.EOF` exactly when the specification accepts, then with exactly its output, and in every
    case with bytes that agree with the specification's output position by position. -/
def C02_refines_spec_statement (dict : ByteArray) : Prop :=
  ∀ (bytes : List UInt8) (sched : List Nat), (∀ n, sched.getLast? = some n → 0 < n) → RefinesSpec dict bytes sched

open Compress.Proofs.BrImpl Compress Compress.Brotli in
/-- **C02 in one piece**: `C02_refines_spec_statement` holds for the dictionary of the right size. -/
theorem C02_refines_spec_one_piece (dict : ByteArray) (hdict : dict.size = 122784) :
    C02_refines_spec_statement dict :=
  fun bytes sched hs => Compress.Proofs.BrImpl.refinesSpec_of dict bytes sched
    (Compress.Proofs.BrImpl.refines_spec dict hdict bytes sched hs)

open Compress.Proofs.BrImpl Compress Compress.Brotli in
/-- **Layer (c), end to end: `C02_refines_spec` restricted to streams of metadata and uncompressed
    meta-blocks** (`UncompressedOnly`: the specification's walk over the meta-block headers meets no
    compressed one) — for ANY dictionary, no other hypothesis. -/
theorem C02_refines_spec_uncompressed (dict : ByteArray) (bytes : List UInt8) (hU : UncompressedOnly bytes)
    (sched : List Nat) (hs : ∀ n, sched.getLast? = some n → 0 < n) :
    (∀ n, (decode dict bytes).verdict = .ok n →
      (∀ fuel, (decode dict bytes).out.size + sched.length + 2 ≤ fuel →
        (Impl.run dict fuel bytes sched).1 = (decode dict bytes).out.toList ∧
        (Impl.run dict fuel bytes sched).2.1 = some .eof) ∧
      (∀ fuel, (Impl.run dict fuel bytes sched).1 <+: (decode dict bytes).out.toList)) ∧
    ((∀ n, (decode dict bytes).verdict ≠ .ok n) →
      ∃ X e, e ≠ .eof ∧ Agree X (decode dict bytes).out.toList ∧
        (∀ fuel, X.length + sched.length + 2 ≤ fuel →
          (Impl.run dict fuel bytes sched).1 = X ∧ (Impl.run dict fuel bytes sched).2.1 = some e) ∧
        (∀ fuel, (Impl.run dict fuel bytes sched).1 <+: X)) :=
  Compress.Proofs.BrImpl.refines_uncompressed dict bytes hU sched hs

/-! ### the hypotheses are satisfiable -/

/-- a dictionary of the right size exists (any 122,784 bytes do; the real one is loaded from /repo by the harness). -/
example : ∃ dict : ByteArray, dict.size = 122784 := ⟨⟨Array.replicate 122784 0⟩, by simp [ByteArray.size]⟩

open Compress.Proofs.BrImpl Compress Compress.Brotli in
/-- `UncompressedOnly` holds e.g. for the stream 0x06: WBITS = 16, then a last, empty meta-block. -/
example : UncompressedOnly [0x06] := by
  intro w st1 h
  have h0 : readWindowBits { bits := Bits.ofBytes [0x06], used := 0, out := #[] } =
      (.ok 16, { bits := [true, true, false, false, false, false, false], used := 1, out := #[] }) := by rfl
  rw [h0] at h
  cases h
  exact RawOnly.lastEmpty (st1 := { bits := [false, false, false, false, false], used := 3, out := #[] }) (by rfl)

open Compress.Proofs.BrImpl Compress Compress.Brotli in
/-- a `Trace` (the hypothesis of the layer (a) theorems) exists for every input, e.g.: -/
example (dict : ByteArray) (hdict : dict.size = 122784) : Trace dict (Impl.init [0x06]) [] .eof := by
  have h := (Compress.Proofs.BrImpl.trace_of_compressed dict (Compress.Proofs.BrImpl.compressedSimZ dict hdict) [0x06]).1 8
    (by rw [C02_spec_last_empty dict []])
  rwa [C02_spec_last_empty dict []] at h

open Compress.Proofs.BrImpl Compress Compress.Brotli in
/-- the hypothesis of `C02_stream_level` is a theorem for the dictionary of the right size. -/
example (dict : ByteArray) (hdict : dict.size = 122784) : CompressedSimZ dict :=
  Compress.Proofs.BrImpl.compressedSimZ dict hdict

end Compress.Props.C02
