/-
C11 — Readers take no more input than the stream needs; counters are exact.
Property theorems only.
-/
import Compress.Proofs.BitIOExact
import Compress.Proofs.FlateRefine
import Compress.Proofs.FlatePrefix
import Compress.Proofs.BzImplCounters
import Compress.Proofs.FlateApi
import Compress.Proofs.BrotliApiOffset
import Compress.Proofs.BzReaderApi
import Compress.Proofs.FlateApiRefine
import Compress.Proofs.MetaRApiExact
import Compress.Proofs.BzReaderApiIn

namespace Compress.Props.C11
open Compress Compress.Prefix Compress.Proofs.PrefixTables Compress.Proofs.BitIOExact

open Compress.Proofs.BitIOExact Compress Compress.Prefix Compress.Proofs.PrefixTables Compress.Proofs.BitIO in
/-- **Counters after every call**, for both source kinds and any Buffered() adversary: BitsRead is exactly the bits handed out, the byte offset equals the bytes taken from the source (InputOffset never exceeds them), and no byte beyond those holding the bits read has been taken. -/
theorem C11_counters_exact (data : List UInt8) (big buffered : Bool) (adv : List Nat) (ns : List Nat)
    (hn : ∀ n ∈ ns, n ≤ 56) (hfit : ns.sum ≤ 8 * data.length) :
    let r := readScriptSt (BR.init { data := data, bufAdv := adv, buffered? := buffered } big) ns
    r.bitsRead = (ns.sum : Int) ∧ r.offset = (taken data r : Int) ∧
    r.src.data = data.drop (taken data r) ∧ 8 * taken data r ≤ ns.sum + 7 :=
  Compress.Proofs.BitIOExact.counters_exact data big buffered adv ns hn hfit

open Compress.Proofs.BitIOExact Compress Compress.Prefix Compress.Proofs.PrefixTables Compress.Proofs.BitIO in
/-- **Exact consumption at the end of a stream** (ReadPads + Flush): the source has lost exactly the bytes that hold the bits read; whatever follows is still unread. -/
theorem C11_exact_consumption (data : List UInt8) (big buffered : Bool) (adv : List Nat) (ns : List Nat)
    (hn : ∀ n ∈ ns, n ≤ 56) (hfit : ns.sum ≤ 8 * data.length) :
    let r := readScriptSt (BR.init { data := data, bufAdv := adv, buffered? := buffered } big) ns
    let r2 := (r.readPads.1).flush
    r2.2 = none ∧ r2.1.src.data = data.drop ((ns.sum + 7) / 8) ∧
    r2.1.offset = (((ns.sum + 7) / 8 : Nat) : Int) ∧ r2.1.bitsRead = ((8 * ((ns.sum + 7) / 8) : Nat) : Int) :=
  Compress.Proofs.BitIOExact.exact_consumption data big buffered adv ns hn hfit

open Compress.Proofs.BitIOExact Compress Compress.Prefix Compress.Proofs.PrefixTables Compress.Proofs.BitIO in
/-- **ReadSymbol does not over-read a ReadByte-only source**: for a canonical complete code the length suggested by the zero-extended table lookup never exceeds the true length of the next code word, so no byte is taken that the stream does not need - even when nothing follows the code word. -/
theorem C11_readSymbol_no_overread (cs : List Code) (h : GoodCodes cs) (hnd : cs.Nodup) (hcan : Canonical cs) (c : Code) (hc : c ∈ cs)
    (r : BR) (hmode : r.src.buffered? = false) (hnofault : r.src.failAfter = none)
    (hbuf : r.numBits < 8) (hbb : r.bufBits < 2 ^ r.numBits) (rest : Bits)
    (hstream : Bits.ofNat r.bufBits r.numBits ++ streamBits r.bigEndian r.src.data = c.word ++ rest) :
    let res := r.readSymbol (Decoder.init cs)
    res.2 = .ok c.sym ∧ res.1.numBits < 8 ∧
    Bits.ofNat res.1.bufBits res.1.numBits ++ streamBits res.1.bigEndian res.1.src.data = rest :=
  Compress.Proofs.BitIOExact.readSymbol_no_overread cs h hnd hcan c hc r hmode hnofault hbuf hbb rest hstream

/-- flate.Reader: at `io.EOF` the input consumed is exactly the stream (in bits, final padding
    included), for every Read schedule. -/
theorem C11_flate_input_offset (bytes : List UInt8) (sched : List Nat)
    (hs : ∀ n, sched.getLast? = some n → 0 < n) (n : Nat)
    (hv : (Flate.decodeBits (Bits.ofBytes bytes)).verdict = .ok n) :
    let r := Flate.Impl.run (Compress.Proofs.FlateRefine.runFuel (Bits.ofBytes bytes) sched)
      (Flate.Impl.init (Bits.ofBytes bytes)) sched
    r.2.2.total - r.2.2.bits.length = n :=
  (Compress.Proofs.FlateRefine.impl_refines_spec bytes sched hs).2.2 n hv

/-- **Flush point.** Give the reader model only the first `k` bytes of a valid stream - the bytes a
    compressor had handed to its sink when a flush returned - and nothing more (every request beyond
    them ends the run).  For every Read schedule it delivers, before it reports unexpected EOF,
    exactly what the RFC 1951 specification decodes from those `k` bytes alone: every block the
    flush completed is delivered without a single byte from beyond the flush point, and what is
    delivered is a prefix of the full output.  (That the bit reader underneath takes no byte beyond
    those holding the bits it hands out is `C11_counters_exact`.) -/
theorem C11_flush_point (bytes : List UInt8) (out : Array UInt8)
    (h : Flate.decode bytes = { out := out, verdict := .ok (8 * bytes.length) })
    (k : Nat) (hk : k < bytes.length) (sched : List Nat)
    (hs : ∀ n, sched.getLast? = some n → 0 < n) :
    let cut := Bits.ofBytes (bytes.take k)
    let r := Flate.Impl.run (Compress.Proofs.FlateRefine.runFuel cut sched) (Flate.Impl.init cut) sched
    r.1 = (Flate.decode (bytes.take k)).out.toList ∧ r.1 <+: out.toList ∧
    r.2.1 = some .unexpectedEOF := by
  intro cut r
  have hr := Compress.Proofs.FlateRefine.impl_refines_spec (bytes.take k) sched hs
  have hc := Compress.Proofs.FlatePrefix.decode_cut bytes out h k hk
  refine ⟨hr.1, ?_, ?_⟩
  · show r.1 <+: out.toList
    have : r.1 = (Flate.decode (bytes.take k)).out.toList := hr.1
    rw [this]; exact hc.2
  · have h2 : r.2.1 = some (Compress.Proofs.FlateRefine.errOf (Flate.decode (bytes.take k)).verdict) := hr.2.1
    rw [h2, hc.1]; rfl

/-- non-vacuity of `C11_flush_point`: two stored blocks, the first ("A", non-final) completed by a
    flush after 6 bytes; the 6-byte cut decodes to "A" and then wants more input. -/
example : (Flate.decode [0x00, 0x01, 0x00, 0xfe, 0xff, 0x41, 0x01, 0x00, 0x00, 0xff, 0xff]).verdict = .ok 88 ∧
    (Flate.decode ([0x00, 0x01, 0x00, 0xfe, 0xff, 0x41, 0x01, 0x00, 0x00, 0xff, 0xff].take 6)).out = #[0x41] ∧
    (Flate.decode ([0x00, 0x01, 0x00, 0xfe, 0xff, 0x41, 0x01, 0x00, 0x00, 0xff, 0xff].take 6)).verdict = .unexpectedEOF := by
  decide
open Compress.Proofs.BzImpl in
/-- **bzip2.Reader counters.** For every input and every Read schedule of the reader model:
    OutputOffset after the run is exactly the number of bytes delivered, and the value published
    after each Read is the number delivered up to and including that Read; a run that ended with
    io.EOF has consumed the whole input (InputOffset = length of the input, nothing left). -/
theorem C11_bzip2_counters (bytes : List UInt8) (sched : List Nat) :
    (Bzip2.Impl.run bytes sched).final.outOff = (Bzip2.Impl.run bytes sched).delivered.length ∧
    (∀ i, i < (Bzip2.Impl.run bytes sched).reads.length →
      ((Bzip2.Impl.run bytes sched).reads.getD i default).outOff =
        (((Bzip2.Impl.run bytes sched).reads.take (i + 1)).flatMap (·.out)).length) ∧
    ((Bzip2.Impl.run bytes sched).err = some .eof →
      (Bzip2.Impl.run bytes sched).final.inOff = bytes.length ∧ (Bzip2.Impl.run bytes sched).final.bits = []) :=
  ⟨(run_outOff bytes sched).1, (run_outOff bytes sched).2, run_inOff_eof bytes sched⟩

/-! ### OutputOffset of flate.Reader and bzip2.Reader at the API (every call sequence) -/

open Compress.Flate.Api in
/-- **flate.Reader: OutputOffset = bytes delivered since the last Reset**, after every call: from
    ANY state, a sequence of Reads and Closes moves it by exactly the bytes the Reads returned, and
    Reset sets it (and InputOffset) to 0. -/
theorem C11_flate_output_offset (r : Reader) (ops : List Op) (hn : ∀ op ∈ ops, op.noReset = true) (src : Src) :
    (Reader.run r ops).1.outputOffset = r.outputOffset + Compress.Proofs.FlateApi.delivered (Reader.run r ops).2 ∧
    (r.reset src).outputOffset = 0 ∧ (r.reset src).inputOffset = 0 :=
  ⟨Compress.Proofs.FlateApi.run_outputOffset r ops hn, (Compress.Proofs.FlateApi.reset_counters r src).1,
   (Compress.Proofs.FlateApi.reset_counters r src).2.1⟩

open Compress.Brotli.Api in
/-- **brotli.Reader: OutputOffset = bytes delivered since the last Reset**, after every call: from
    ANY state, a sequence of Reads and Closes moves it by exactly the bytes the Reads returned, and
    Reset sets it (and InputOffset) to 0. -/
theorem C11_brotli_output_offset (sd : ByteArray) (r : Reader) (ops : List Op) (hn : ∀ op ∈ ops, op.noReset = true) (src : Src) :
    (Reader.run sd r ops).1.outputOffset = r.outputOffset + Compress.Proofs.BrotliApi.delivered (Reader.run sd r ops).2 ∧
    (r.reset src).outputOffset = 0 ∧ (r.reset src).inputOffset = 0 :=
  ⟨Compress.Proofs.BrotliApi.run_outputOffset sd r ops hn, (Compress.Proofs.BrotliApi.reset_counters r src).1,
   (Compress.Proofs.BrotliApi.reset_counters r src).2.1⟩

open Compress.Bzip2.ReaderApi in
/-- **bzip2.Reader: OutputOffset = bytes delivered since the last Reset** (same statement). -/
theorem C11_bzip2_output_offset (r : Reader) (ops : List Op) (hn : ∀ op ∈ ops, op.noReset = true) (src : Src) :
    (Reader.run r ops).1.outputOffset = r.outputOffset + Compress.Proofs.BzReaderApi.delivered (Reader.run r ops).2 ∧
    (r.reset src).outputOffset = 0 ∧ (r.reset src).inputOffset = 0 :=
  ⟨Compress.Proofs.BzReaderApi.run_outputOffset r ops hn, rfl, rfl⟩

open Compress.Flate.Api Compress.Proofs.FlateRefine in
/-- **flate.Reader at the API: at `io.EOF` InputOffset is the stream length** (final padding
    included, trailing bytes not), for every source, every Read schedule, from any earlier state
    Reset onto the source. -/
theorem C11_flate_api_input_offset (r0 : Reader) (src : Src) (sched : List Nat)
    (hs : ∀ n, sched.getLast? = some n → 0 < n) (n : Nat)
    (hv : (Flate.decodeBits src.bits).verdict = .ok n) :
    ∃ r' got, Reader.drive (runFuel src.bits sched) (r0.reset src) sched #[] = (got, some .eof, r') ∧
      r'.inputOffset = (n + 7) / 8 := by
  obtain ⟨r', h1, _, _, _, h5⟩ := Compress.Proofs.FlateApi.reset_drive_spec r0 src sched hs
  rw [hv] at h1
  exact ⟨r', _, h1, h5 n hv⟩

open Compress.Bzip2.ReaderApi in
/-- **bzip2.Reader at the API: at `io.EOF` InputOffset is the length of the input.** For a source
    that does not fail, from any earlier state Reset onto it, after ANY sequence of Reads (any buffer
    lengths, zero included) and Closes: a Read that returns io.EOF leaves InputOffset equal to the
    total number of input bytes (the reader continues into following streams, so io.EOF means
    everything was consumed).  `C11_bzip2_counters` lifted to `Bzip2.ReaderApi`. -/
theorem C11_bzip2_api_input_offset_at_eof (r0 : Reader) (src : Src) (hf : src.fault = none) (ops : List Op)
    (hn : ∀ op ∈ ops, op.noReset = true) (n : Nat)
    (h : ((Reader.run (r0.reset src) ops).1.read n).2.2 = some .eof) :
    ((Reader.run (r0.reset src) ops).1.read n).1.inputOffset = src.data.length :=
  Compress.Proofs.BzReaderApiIn.inputOffset_at_eof r0 src hf ops hn n h

/-! ### meta.Reader (API-level model `Meta/ReaderApi.lean`) -/

section metaReader
open Compress.Meta Compress.Proofs.MetaRApi

/-- **meta.Reader consumes exactly the stream it decodes.** For every source (any bytes, a
    fault at any position or none; `src.avail` = the bytes the source hands out) and every Read
    schedule (any buffer lengths, zero included): OutputOffset is the number of bytes delivered
    so far; and if the run has reached io.EOF then the codec (`Codec.decode`) accepts the
    input, InputOffset is exactly its `consumed` (the bytes of the decoded blocks), NumBlocks
    its block count, OutputOffset the length of its payload, and the input the reader has not
    consumed is exactly what follows those bytes: nothing after the stream was read. -/
theorem C11_meta_reader_exact (src : Src) (ns : List Nat) :
    let r := MR.run (newMR src) (ns.map .read)
    r.1.outOff = (dataOf r.2).length ∧
    (r.1.err = some .eof → ∃ d, decode src.avail = .ok d ∧ r.1.inOff = d.consumed ∧ r.1.nblk = d.blocks ∧
      r.1.rest = (Bits.ofBytes src.avail).drop (8 * d.consumed) ∧ r.1.outOff = d.payload.length) :=
  Compress.Proofs.MetaRApi.exact src ns

/-- **OutputOffset after every call**, from any state: a Read adds exactly the number of bytes
    it returns (at most the buffer length), Close leaves it, Reset zeroes it; hence after any
    op sequence without Reset it has grown by the total delivered. -/
theorem C11_meta_reader_output_offset (s : MR) :
    (∀ n, (s.read n).1.outOff = s.outOff + (s.read n).2.1.length ∧ (s.read n).2.1.length ≤ n) ∧
    s.close.1.outOff = s.outOff ∧ (∀ src, (s.reset src).outOff = 0) ∧
    (∀ ops, noReset ops → (MR.run s ops).1.outOff = s.outOff + (dataOf (MR.run s ops).2).length) :=
  ⟨fun n => ⟨read_outOff s n, read_len s n⟩, close_outOff s, fun _ => rfl, fun ops h => run_outOff ops s h⟩

-- non-vacuity: a FinalMeta block with payload "abc" followed by two more bytes, read with 1-byte and
-- zero-length Reads: io.EOF after the payload, InputOffset = 17 = the block, the two bytes untouched
set_option maxRecDepth 100000 in
example :
    let r := MR.run (newMR { data := [4, 192, 134, 5, 0, 32, 41, 100, 20, 161, 20, 234, 255, 235, 218, 123, 251, 0xaa, 0xbb] })
      [.read 1, .read 0, .read 1, .read 1, .read 1]
    r.2 = [.read [0x61] none, .read [] none, .read [0x62] none, .read [0x63] none, .read [] (some .eof)] ∧
    r.1.inOff = 17 ∧ r.1.outOff = 3 ∧ r.1.nblk = 1 ∧ r.1.finalMode = .fmeta ∧ r.1.rest = Bits.ofBytes [0xaa, 0xbb] := by
  decide

end metaReader

end Compress.Props.C11
