/-
C06 — Every XFLATE stream is a plain DEFLATE stream with the same content.

Model: `Compress.XFlate.Writer` (with the real meta encoder model), reference
decoder: `Compress.Flate.Spec`. The DEFLATE compressor is a parameter under
the contract `ZChunkOK` (WriterSpec), exercised by the correspondence run.
-/
import Compress.Proofs.XFlateStream

namespace Compress.Props.C06
open Compress Compress.XFlate

/-- **C06.** For every configuration `NewWriter` accepts, every sequence of
    `Write`/`Flush(any mode)` calls and a successful `Close`, with a compressor that
    keeps its per-chunk contract, the RFC 1951 specification decodes the emitted
    bytes to exactly the accepted data, consuming every bit (so the final-block bit
    stands only in the last block). -/
theorem C06_plain_deflate (crc : List UInt8 → Nat) (level chunk index : Int) (hasConf : Bool)
    (oracle : List ZEv) (ops : List WOp) (s0 : XWState)
    (h0 : newWriter level chunk index hasConf {} oracle = some s0)
    (hz : ∀ ev ∈ oracle, ev.err ≠ some .closed) :
    let s := (runW crc s0 ops).1
    s.err = some .closed → s.bad = false →
    (∀ c ∈ chunksOf s.zlog [] [], ZChunkOK c.1 c.2) →
    Flate.decode s.sink.got =
      { out := (dataOf s.zlog).toArray, verdict := .ok (8 * s.sink.got.length) } :=
  Compress.Proofs.XFlateStream.plain_deflate crc level chunk index hasConf oracle ops s0 h0 hz

/-- the decoded data is what `Write` reported as accepted. -/
theorem C06_data_accounted (crc : List UInt8 → Nat) (level chunk index : Int) (hasConf : Bool)
    (oracle : List ZEv) (ops : List WOp) (s0 : XWState)
    (h0 : newWriter level chunk index hasConf {} oracle = some s0) :
    let s := (runW crc s0 ops).1
    s.bad = false → s.inOff = (dataOf s.zlog).length :=
  Compress.Proofs.XFlateStream.data_accounted crc level chunk index hasConf oracle ops s0 h0

/-- non-vacuity of the compressor contract: the five bytes a sync flush of an empty
    chunk emits satisfy it. -/
theorem C06_contract_witness : ZChunkOK [0, 0, 0, 255, 255] [] :=
  Compress.Proofs.XFlateStream.zchunkOK_syncMarker

end Compress.Props.C06
