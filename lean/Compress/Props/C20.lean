/-
C20 — Huffman code construction and bit I/O are sound for every frequency
profile.

Property theorems only. Models: `Compress.Prefix.Codes` (GeneratePrefixes,
GenerateLengths, RangeCodes), `Compress.Prefix.Tables` (Decoder/Encoder
tables), `Compress.Prefix.BitReader/BitWriter`. Lemmas under `Compress.Proofs`.
-/
import Compress.Prefix.Spec
import Compress.Proofs.PrefixCodes
import Compress.Proofs.PrefixTables
import Compress.Proofs.PrefixLengths

namespace Compress.Props.C20
open Compress Compress.Prefix

/-- H2 (totality): for every table of counts in ascending order and every limit
    that can hold the alphabet, `GenerateLengths` returns — the tree rotation
    never reaches below level 0, no histogram entry ends negative, every symbol
    gets a length. -/
theorem C20_lengths_total (counts : List Nat) (maxBits : Nat)
    (hs : (counts.zip counts.tail).all (fun (a, b) => a ≤ b) = true)
    (hfit : counts.length ≤ 2 ^ maxBits) (hm : maxBits ≤ valueBits) (h1 : 1 ≤ maxBits) :
    ∃ lens, generateLengths counts maxBits = some lens :=
  Compress.Proofs.PrefixLengths.generateLengths_total counts maxBits hs hfit hm h1

/-- H2 (complete, within the limit): whatever `GenerateLengths` returns for two
    or more symbols satisfies the Kraft equality and respects the limit — also
    when the optimal code would be deeper than the limit (bzip2's 20 bits). -/
theorem C20_lengths_complete (counts : List Nat) (maxBits : Nat) (lens : List Nat)
    (hn : 2 ≤ counts.length) (h : generateLengths counts maxBits = some lens) :
    KraftComplete lens ∧ ∀ l ∈ lens, 1 ≤ l ∧ l ≤ maxBits :=
  Compress.Proofs.PrefixLengths.generateLengths_sound counts maxBits lens hn h

/-- H2 (monotone): a more frequent symbol never gets a longer code. -/
theorem C20_lengths_monotone (counts : List Nat) (maxBits : Nat) (lens : List Nat)
    (h : generateLengths counts maxBits = some lens) :
    ∀ i j, i < j → j < lens.length → counts.getD i 0 < counts.getD j 0 → lens.getD j 0 ≤ lens.getD i 0 :=
  Compress.Proofs.PrefixLengths.generateLengths_monotone counts maxBits lens h

theorem C20_lengths_length (counts : List Nat) (maxBits : Nat) (lens : List Nat)
    (h : generateLengths counts maxBits = some lens) : lens.length = counts.length :=
  Compress.Proofs.PrefixLengths.generateLengths_length counts maxBits lens h

/-- H1 (acceptance): `GeneratePrefixes` accepts exactly the complete length vectors. -/
theorem C20_prefixes_ok_iff (cs : List Code) (h : ValidLens cs) :
    (∃ r, generatePrefixes cs = .ok r) ↔ KraftComplete (cs.map (·.len)) :=
  Compress.Proofs.PrefixCodes.generatePrefixes_ok_iff cs h

/-- H1 (soundness): the assigned code keeps symbols and lengths, every value fits
    its length, no code word is a prefix of another, and the code is canonical. -/
theorem C20_prefixes_sound (cs r : List Code) (h : ValidLens cs) (hr : generatePrefixes cs = .ok r) :
    (r.map (·.sym) = cs.map (·.sym) ∧ r.map (·.len) = cs.map (·.len)) ∧
    (∀ c ∈ r, c.val < 2 ^ c.len) ∧ PrefixFree r ∧ Canonical r :=
  ⟨Compress.Proofs.PrefixCodes.generatePrefixes_shape cs r hr,
   Compress.Proofs.PrefixCodes.generatePrefixes_val_lt cs r h hr,
   Compress.Proofs.PrefixCodes.generatePrefixes_prefixFree cs r h hr,
   Compress.Proofs.PrefixCodes.generatePrefixes_canonical cs r h hr⟩

/-- H3 (decoder): the two-level table decodes every stream to the unique code
    that prefixes it. -/
theorem C20_decoder_correct (cs : List Code) (h : Compress.Proofs.PrefixTables.GoodCodes cs)
    (c : Code) (hc : c ∈ cs) (rest : Bits) :
    (Decoder.init cs).readSymbol (c.word ++ rest) = some (c.sym, rest) :=
  Compress.Proofs.PrefixTables.decoder_readSymbol cs h c hc rest

/-- H3 (encoder): the collision-free table search terminates and maps every
    symbol to its code. -/
theorem C20_encoder_correct (cs : List Code) (h2 : 2 ≤ cs.length)
    (hs : symsIncreasing cs = true) (hb : ∀ c ∈ cs, c.sym < 2 ^ 32 ∧ c.val < 2 ^ 27 ∧ 1 ≤ c.len ∧ c.len < 32) :
    ∃ e, Encoder.init cs = some e ∧ ∀ c ∈ cs, e.lookup c.sym = (c.val, c.len) :=
  Compress.Proofs.PrefixTables.encoder_lookup cs h2 hs hb

/-- H6: `RangeEncoder.Encode` returns the range that holds the offset. -/
theorem C20_range_correct (base : Nat) (bits : List Nat) (hb : bits ≠ []) (ofs : Nat)
    (hlo : base ≤ ofs) (hhi : ofs < base + (bits.map (2 ^ ·)).foldl (· + ·) 0) :
    let rcs := makeRangeCodes base bits
    let s := rangeEncode rcs ofs
    s < rcs.length ∧ (rcs.getD s ⟨0, 0⟩).base ≤ ofs ∧ ofs < (rcs.getD s ⟨0, 0⟩).end_ :=
  Compress.Proofs.PrefixCodes.rangeEncode_correct base bits hb ofs hlo hhi

-- non-vacuity: a skewed profile that forces length limiting (Fibonacci counts, limit 4)
example : generateLengths [1, 1, 2, 3, 5, 8, 13, 21] 4 = some [4, 4, 4, 4, 4, 4, 3, 1] := by decide
-- and the code GeneratePrefixes assigns to DEFLATE-like lengths
example : (generatePrefixes [⟨0, 0, 2, 0⟩, ⟨1, 0, 1, 0⟩, ⟨2, 0, 3, 0⟩, ⟨3, 0, 3, 0⟩]).toOption.isSome = true := by decide

end Compress.Props.C20
