/-
C15 — whatever xflate.Reader accepts, a DEFLATE decoder reads identically.

FALSE of the code as it is (D10, known finding, kernel-checked witness below):
a non-footer chunk may hold a FINAL block that consumes exactly the end block
chunkReader appends.  Proved: the property for every stream none of whose chunks
holds a final-block header (`NoFinalBlock`, stated on the specification only) -
which every stream the Writer produces satisfies.  Property theorems only.
-/
import Compress.Proofs.XFlateAccept
import Compress.Drv.XFlateOpen

namespace Compress.Props.C15
open Compress Compress.XFlate Compress.Proofs.XFlateGlue Compress.Proofs.XFlateAccept

open Compress.Proofs.XFlateAccept Compress Compress.XFlate Compress.Proofs.XFlateGlue in
/-- **C15 (partial: hfin).** If Reader.Reset accepts a byte string, no non-footer segment holds a final-block header, and reading sequentially to the end succeeds (any buffer size, any inflater behaviour), then the RFC 1951 specification accepts the whole string, consuming every byte, and yields exactly the bytes read. -/
theorem C15_accepted_is_deflate (crc : List UInt8 → Nat) (stream : List UInt8) (r : OpenResult)
    (h : openIndex .fixed crc stream = .ok r)
    (hfin : ∀ j, j + 1 < r.recs.length →
      NoFinalBlock (bytesBetween stream (getRecords r.recs j).1.comp (getRecords r.recs j).2.comp))
    (n fuel : Nat) (hn : 0 < n) (advs : List Adv) (d : List UInt8)
    (hs : seqRead (layoutOf stream r.recs) n fuel (opened .fixed (layoutOf stream r.recs)) advs [] = (d, some .eof)) :
    Flate.decode stream = { out := d.toArray, verdict := .ok (8 * stream.length) } :=
  Compress.Proofs.XFlateAccept.accepted_is_deflate crc stream r h hfin n fuel hn advs d hs

open Compress.Proofs.XFlateAccept Compress Compress.XFlate Compress.Proofs.XFlateGlue in
/-- under the same hypothesis the end position the index reports is the length of what a DEFLATE decoder produces. -/
theorem C15_index_agrees (crc : List UInt8 → Nat) (stream : List UInt8) (r : OpenResult)
    (h : openIndex .fixed crc stream = .ok r)
    (hfin : ∀ j, j + 1 < r.recs.length →
      NoFinalBlock (bytesBetween stream (getRecords r.recs j).1.comp (getRecords r.recs j).2.comp))
    (n fuel : Nat) (hn : 0 < n) (advs : List Adv) (d : List UInt8)
    (hs : seqRead (layoutOf stream r.recs) n fuel (opened .fixed (layoutOf stream r.recs)) advs [] = (d, some .eof)) :
    (layoutOf stream r.recs).endRaw = ((Flate.decode stream).out.size : Int) :=
  Compress.Proofs.XFlateAccept.index_agrees crc stream r h hfin n fuel hn advs d hs

open Compress.Proofs.XFlateAccept Compress Compress.XFlate Compress.Proofs.XFlateGlue in
/-- without any extra hypothesis: the end position the index reports is the number of bytes the sequential read delivered. -/
theorem C15_index_agrees_read (crc : List UInt8 → Nat) (stream : List UInt8) (r : OpenResult)
    (h : openIndex .fixed crc stream = .ok r) (n fuel : Nat) (hn : 0 < n) (advs : List Adv) (d : List UInt8)
    (hs : seqRead (layoutOf stream r.recs) n fuel (opened .fixed (layoutOf stream r.recs)) advs [] = (d, some .eof)) :
    (layoutOf stream r.recs).endRaw = (d.length : Int) :=
  Compress.Proofs.XFlateAccept.index_agrees_read crc stream r h n fuel hn advs d hs

open Compress.Proofs.XFlateAccept Compress Compress.XFlate Compress.Proofs.XFlateGlue in
/-- non-vacuity: every stream xflate.Writer closes satisfies the hypothesis. -/
theorem C15_writer_streams_qualify (crc : List UInt8 → Nat) (level chunk index : Int) (hasConf : Bool)
    (oracle : List ZEv) (ops : List WOp) (s0 : XWState)
    (h0 : newWriter level chunk index hasConf {} oracle = some s0)
    (hz : ∀ ev ∈ oracle, ev.err ≠ some .closed) :
    let s := (runW crc s0 ops).1
    s.err = some .closed → s.bad = false →
    (∀ c ∈ chunksOf s.zlog [] [], ZChunkOK c.1 c.2 ∧ 4 < c.1.length ∧
        (c.1.reverse.take 4).reverse = [0x00, 0x00, 0xff, 0xff]) →
    (∀ p ∈ s.zlog, p.1.kind = .zflush → p.1.emitted ≠ []) →
    s.sink.got.length < 2 ^ 63 → (dataOf s.zlog).length < 2 ^ 63 →
    ∀ j, j + 1 < s.allRecs.length →
      NoFinalBlock (bytesBetween s.sink.got (getRecords s.allRecs j).1.comp (getRecords s.allRecs j).2.comp) :=
  Compress.Proofs.XFlateAccept.writer_stream_noFinalBlock crc level chunk index hasConf oracle ops s0 h0 hz

open Compress.Proofs.XFlateAccept Compress Compress.XFlate Compress.Proofs.XFlateGlue in
/-- history independence of the specification (a segment that decodes from an empty window decodes the same after any earlier output). -/
theorem C15_history_independent (total fuel : Nat) (pre : Array UInt8) (bits : Bits) (out : Array UInt8) (n : Nat)
    (h : Flate.decodeBlocks total fuel #[] bits = { out := out, verdict := .ok n }) :
    Flate.decodeBlocks total fuel pre bits = { out := pre ++ out, verdict := .ok n } :=
  Compress.Proofs.XFlateAccept.decodeBlocks_history total fuel pre bits out n h

open Compress.Proofs.XFlateAccept Compress Compress.XFlate Compress.Proofs.XFlateGlue in
/-- **D10 (known finding).** The full property is false: a 53-byte string that Reader.Reset accepts and the sequential read serves to the end, which the specification decodes to different bytes, stopping after 14 bytes. -/
theorem C15_violated_D10  :
    ∃ r, openIndex .fixed crc32IEEE witness = .ok r ∧ r.recs = witnessRecs ∧
      seqRead (layoutOf witness r.recs) 4096 100 (opened .fixed (layoutOf witness r.recs)) [] [] =
        ([0,0,255,255,1,0,0,255,255], some .eof) ∧
      (Flate.decode witness).out = #[0,0,255,255,36,128,134,5,128] ∧
      (Flate.decode witness).verdict = .ok 112 ∧
      Flate.decode witness ≠
        { out := ([0,0,255,255,1,0,0,255,255] : List UInt8).toArray, verdict := .ok (8 * witness.length) } :=
  Compress.Proofs.XFlateAccept.accepted_not_deflate_witness 

/-- the layout the driver uses for kind `xa` is the one the theorems are about. -/
theorem drv_layout_eq (stream : List UInt8) (recs : List Record) :
    Compress.Drv.layoutSpec stream recs = layoutOf stream recs := rfl

end Compress.Props.C15
