/-
C10 — the decoded stream is independent of Read sizes and of the source's shape.
Property theorems only.
-/
import Compress.Proofs.FlateRefine
import Compress.Proofs.Bzip2Stages
import Compress.Proofs.BitIO
import Compress.Proofs.XFlateReader
import Compress.XFlate.ReaderSpec
import Compress.Proofs.BzImplCut
import Compress.Proofs.WrapInit
import Compress.Proofs.WrapLift

namespace Compress.Props.C10
open Compress Compress.Flate Compress.Prefix Compress.Bzip2 Compress.Proofs.Bzip2Stages Compress.Proofs.FlateRefine

open Compress.Proofs.FlateRefine Compress Compress.Flate in
/-- **flate.Reader.** Two schedules of Read buffer lengths (zero-length buffers anywhere but last) deliver the same bytes and the same final error. -/
theorem C10_flate_read_sizes (bytes : List UInt8) (s1 s2 : List Nat)
    (h1 : ∀ n, s1.getLast? = some n → 0 < n) (h2 : ∀ n, s2.getLast? = some n → 0 < n) :
    let bits := Bits.ofBytes bytes
    (Impl.run (runFuel bits s1) (Impl.init bits) s1).1 = (Impl.run (runFuel bits s2) (Impl.init bits) s2).1 ∧
    (Impl.run (runFuel bits s1) (Impl.init bits) s1).2.1 = (Impl.run (runFuel bits s2) (Impl.init bits) s2).2.1 :=
  Compress.Proofs.FlateRefine.schedule_independent bytes s1 s2 h1 h2

open Compress.Proofs.BitIO Compress Compress.Prefix in
/-- **Source shape.** The bit reader all three decoders sit on returns the same fields for a ReadByte-only source and for a Peek/Discard source with any conforming Buffered() answers - both equal the plain bit list. -/
theorem C10_source_shape (data : List UInt8) (big buffered : Bool) (adv : List Nat) (ns : List Nat)
    (hn : ∀ n ∈ ns, n ≤ 56) :
    readScript (BR.init { data := data, bufAdv := adv, buffered? := buffered } big) ns =
      specReadScript (streamBits big data) ns :=
  Compress.Proofs.BitIO.reader_refines data big buffered adv ns hn

open Compress.Proofs.Bzip2Stages Compress Compress.Bzip2 in
/-- **bzip2 output stage.** For every schedule of buffer sizes (zeros included) the resumable RLE1 reader delivers a prefix of the one-shot expansion, all of it when done, and never invents a corruption. -/
theorem C10_bzip2_read_sizes (blk : List UInt8) (sched : List Nat) :
    let r := readSched { buf := blk.toArray } sched []
    match rle1Decode (blk.length + 1) blk none 0 [] with
    | some full => r.1 <+: full ∧ (r.2 = .done → r.1 = full) ∧ r.2 ≠ .corrupted
    | none => r.2 ≠ .done :=
  Compress.Proofs.Bzip2Stages.rle1_resumable blk sched

/-- **xflate.Reader.** C07 is quantified over every behaviour of the inflater (how many bytes
    each inner Read hands out, whether EOF comes with the last bytes): whatever it does, the
    trace is a ReadSeeker trace over the same plaintext. -/
theorem C10_xflate_any_fragmentation (L : XFlate.Layout) (plain : List UInt8) (wf : XFlate.WellFormed L plain)
    (ops : List XFlate.ROp) :
    XFlate.TraceOK plain 0 ops (XFlate.runOps .fixed L (XFlate.opened .fixed L) ops) :=
  Compress.Proofs.XFlateReader.readseeker L plain wf ops

open Compress.Proofs.BzImpl in
/-- **bzip2.Reader.** Two schedules of Read buffer lengths (zero-length buffers anywhere) over the
    same input deliver comparable byte strings - both are prefixes of the specification's output -
    and if both runs ended they delivered the same bytes and ended with the same error. -/
theorem C10_bzip2_reader_read_sizes (bytes : List UInt8) (s1 s2 : List Nat) :
    ((Bzip2.Impl.run bytes s1).delivered <+: (Bzip2.Impl.run bytes s2).delivered ∨
      (Bzip2.Impl.run bytes s2).delivered <+: (Bzip2.Impl.run bytes s1).delivered) ∧
    (∀ e1 e2, (Bzip2.Impl.run bytes s1).err = some e1 → (Bzip2.Impl.run bytes s2).err = some e2 →
      (Bzip2.Impl.run bytes s1).delivered = (Bzip2.Impl.run bytes s2).delivered ∧ e1 = e2) :=
  schedule_independent tables_agree bytes s1 s2
open Compress.Proofs.Wrap Compress.Prefix.Wrap in
/-- **wrap.go: the look-ahead cache honours the BufferedReader contract, for every interleaving.**
    A `bytesReader`/`stringReader` (concrete model: `pos`, the cache as a window of `arr [512]byte`,
    `update`) started on a *bytes.Reader / *strings.Reader at any position, under ANY sequence of
    `Buffered`, `Peek n`, `Discard n`, direct `Read`/`ReadByte` on the embedded reader and `Seek`s
    (any offset and whence, failing ones included) by its owner: every `Peek n` with n ≤ 512 returns
    exactly the next min(n, remaining) bytes at the embedded reader's CURRENT position, with io.EOF
    iff fewer than n remain (io.ErrShortBuffer for n > 512); `Discard n` skips min(n, remaining);
    `Buffered()` ≤ remaining; reads and Seeks act on the position the wrapper left. -/
theorem C10_wrapper_contract (rd : Rd) (ops : List Op) : ContractOK rd (trace (CRd.fresh rd) ops) :=
  wrapper_contract rd ops

open Compress.Proofs.Wrap Compress.Prefix.Wrap in
/-- the invariant behind it: after any such history the cache, once `update` has re-synchronised
    it, equals `data[pos, pos+len)` with `pos` the embedded reader's current position. -/
theorem C10_wrapper_cache_invariant (rd : Rd) (ops : List Op) :
    let w := (runOps (CRd.fresh rd) ops).update
    w.buf = w.rd.rest.take w.bLen ∧ w.bLen ≤ w.rd.len ∧ w.pos = (w.rd.i : Int) :=
  cache_after_history rd ops

open Compress.Proofs.Wrap Compress.Prefix.Wrap Compress.Prefix in
/-- **The wrappers simulate the abstract `Source`** the bit reader theorems are stated over.
    `WSim w s`: `s` holds exactly the unread bytes at the wrapped object's current position, never
    fails, and its ghost `peeked` is covered by the usable cache.  A fresh wrapper is related to the
    source over the unread bytes (any adversary list); `Peek` (within reach), `Discard` and the direct
    `Read` return the same bytes, counts and errors on both sides and keep the relation;
    `Buffered()` keeps it and answers a value the abstract adversary may answer in that state. -/
theorem C10_wrapper_simulates_source (w : Wrapper) (s : Source) (h : WSim w s) (n : Nat) :
    (peekOK w n → (w.peek n).2.1 = (s.peek n).2.1 ∧ (w.peek n).2.2 = (s.peek n).2.2 ∧ WSim (w.peek n).1 (s.peek n).1) ∧
    ((w.discard n).2.1 = (s.discard n).2.1 ∧ (w.discard n).2.2 = (s.discard n).2.2 ∧
      WSim (w.discard n).1 (s.discard n).1) ∧
    (0 < n → (w.read n).2.1 = (s.read n).2.1 ∧ (w.read n).2.2 = (s.read n).2.2 ∧ WSim (w.read n).1 (s.read n).1) ∧
    (WSim w.buffered.1 s ∧ w.buffered.2 ≤ s.avail ∧
      (∀ rest, ({ s with bufAdv := w.buffered.2 :: rest } : Source).bufferedAns.2 = w.buffered.2) ∧
      (∀ c, c ≤ arrLen → peekOK w.buffered.1 (max c w.buffered.2))) :=
  ⟨wsim_peek h n, wsim_discard h n, wsim_read h n, wsim_buffered h⟩

open Compress.Proofs.Wrap Compress.Prefix.Wrap Compress.Prefix in
/-- the relation holds initially, for every source object `Init` wraps and every adversary list,
    and again after any `Seek` by the owner (with the source re-targeted at the new position). -/
theorem C10_wrapper_simulation_starts (src : Src) (adv : List Nat) :
    WSim (Wrapper.fresh src) { data := Src.rest src, bufAdv := adv } :=
  wsim_fresh src adv

open Compress.Proofs.Wrap Compress.Prefix.Wrap Compress.Prefix in
/-- **Source shape, concretely.**  `C10_source_shape` assumed the wrappers honour the contract; this
    closes the assumption for the three wrapped kinds: for every *bytes.Reader, *strings.Reader or
    *bytes.Buffer (at any position), any earlier state of the Reader, both bit orders and every script
    of field widths up to 56 bits, `ReadBits` on the Reader model running over the CONCRETE wrapper
    (cache and all) returns exactly the successive fields of the bit stream of the unread bytes, the
    first field that does not fit failing with io.ErrUnexpectedEOF.  Proved by lifting the wrapper
    simulation through Flush/PullBits/ReadBits and instantiating `reader_refines` with the
    `Buffered()` answers the wrapper really gives. -/
theorem C10_wrapper_source_shape (old : Option WR) (src : Src) (big : Bool) (ns : List Nat) (hn : ∀ n ∈ ns, n ≤ 56) :
    wreadScript (WR.init old src big) ns = specReadScript (streamBits big (Src.rest src)) ns :=
  wrapper_reader_refines old src big ns hn

-- non-vacuity: a wrapper whose cache holds the whole source, then a Seek backwards by the owner,
-- a direct Read past the cached window and a Peek: a legal instance of the quantified sequence
example : (Compress.Proofs.Wrap.trace (Compress.Prefix.Wrap.CRd.fresh { s := [1, 2, 3, 4, 5], i := 2 })
    [.peek 2, .seek (-2) 1, .read 1, .peek 9, .discard 9, .buffered]).map (·.2) =
    [.bytes [3, 4] none, .at 0 none, .bytes [1] none, .bytes [2, 3, 4, 5] (some .eof), .count 4 (some .eof), .num 0] := by
  decide

end Compress.Props.C10
