/-
C10 — the decoded stream is independent of Read sizes and of the source's shape.
Property theorems only.
-/
import Compress.Proofs.FlateRefine
import Compress.Proofs.Bzip2Stages
import Compress.Proofs.BitIO
import Compress.Proofs.XFlateReader
import Compress.XFlate.ReaderSpec
import Compress.Proofs.BzImplCut

namespace Compress.Props.C10
open Compress Compress.Flate Compress.Prefix Compress.Bzip2 Compress.Proofs.Bzip2Stages Compress.Proofs.FlateRefine

open Compress.Proofs.FlateRefine Compress Compress.Flate in
/-- **flate.Reader.** Two schedules of Read buffer lengths (zero-length buffers anywhere but last) deliver the same bytes and the same final error. -/
theorem C10_flate_read_sizes (bytes : List UInt8) (s1 s2 : List Nat)
    (h1 : ∀ n, s1.getLast? = some n → 0 < n) (h2 : ∀ n, s2.getLast? = some n → 0 < n) :
    let bits := Bits.ofBytes bytes
    (Impl.run (runFuel bits s1) (Impl.init bits) s1).1 = (Impl.run (runFuel bits s2) (Impl.init bits) s2).1 ∧
    (Impl.run (runFuel bits s1) (Impl.init bits) s1).2.1 = (Impl.run (runFuel bits s2) (Impl.init bits) s2).2.1 :=
  Compress.Proofs.FlateRefine.schedule_independent bytes s1 s2 h1 h2

open Compress.Proofs.BitIO Compress Compress.Prefix in
/-- **Source shape.** The bit reader all three decoders sit on returns the same fields for a ReadByte-only source and for a Peek/Discard source with any conforming Buffered() answers - both equal the plain bit list. -/
theorem C10_source_shape (data : List UInt8) (big buffered : Bool) (adv : List Nat) (ns : List Nat)
    (hn : ∀ n ∈ ns, n ≤ 56) :
    readScript (BR.init { data := data, bufAdv := adv, buffered? := buffered } big) ns =
      specReadScript (streamBits big data) ns :=
  Compress.Proofs.BitIO.reader_refines data big buffered adv ns hn

open Compress.Proofs.Bzip2Stages Compress Compress.Bzip2 in
/-- **bzip2 output stage.** For every schedule of buffer sizes (zeros included) the resumable RLE1 reader delivers a prefix of the one-shot expansion, all of it when done, and never invents a corruption. -/
theorem C10_bzip2_read_sizes (blk : List UInt8) (sched : List Nat) :
    let r := readSched { buf := blk.toArray } sched []
    match rle1Decode (blk.length + 1) blk none 0 [] with
    | some full => r.1 <+: full ∧ (r.2 = .done → r.1 = full) ∧ r.2 ≠ .corrupted
    | none => r.2 ≠ .done :=
  Compress.Proofs.Bzip2Stages.rle1_resumable blk sched

/-- **xflate.Reader.** C07 is quantified over every behaviour of the inflater (how many bytes
    each inner Read hands out, whether EOF comes with the last bytes): whatever it does, the
    trace is a ReadSeeker trace over the same plaintext. -/
theorem C10_xflate_any_fragmentation (L : XFlate.Layout) (plain : List UInt8) (wf : XFlate.WellFormed L plain)
    (ops : List XFlate.ROp) :
    XFlate.TraceOK plain 0 ops (XFlate.runOps .fixed L (XFlate.opened .fixed L) ops) :=
  Compress.Proofs.XFlateReader.readseeker L plain wf ops

open Compress.Proofs.BzImpl in
/-- **bzip2.Reader.** Two schedules of Read buffer lengths (zero-length buffers anywhere) over the
    same input deliver comparable byte strings - both are prefixes of the specification's output -
    and if both runs ended they delivered the same bytes and ended with the same error. -/
theorem C10_bzip2_reader_read_sizes (bytes : List UInt8) (s1 s2 : List Nat) :
    ((Bzip2.Impl.run bytes s1).delivered <+: (Bzip2.Impl.run bytes s2).delivered ∨
      (Bzip2.Impl.run bytes s2).delivered <+: (Bzip2.Impl.run bytes s1).delivered) ∧
    (∀ e1 e2, (Bzip2.Impl.run bytes s1).err = some e1 → (Bzip2.Impl.run bytes s2).err = some e2 →
      (Bzip2.Impl.run bytes s1).delivered = (Bzip2.Impl.run bytes s2).delivered ∧ e1 = e2) :=
  schedule_independent tables_agree bytes s1 s2

end Compress.Props.C10
