/-
C01 — DEFLATE decoding is exactly RFC 1951 (flate.Reader).

`Compress.Flate.Spec` is an executable reading of RFC 1951 (validated on every
run against Go's compress/flate and this repository's reader, family fl);
`Compress.Flate.Impl` is the Go-shaped model of /repo/flate/reader.go (tables
built by GeneratePrefixes + Decoder.Init, ring-buffer window, resumable steps,
the toRead/err latch of Read), validated call by call (family fl, lines flr).
Property theorems only; proofs in `Compress.Proofs.FlateRefine`/`FlatePrefix`.
-/
import Compress.Flate.Impl
import Compress.Flate.Spec
import Compress.Proofs.FlateRefine
import Compress.Proofs.FlatePrefix

namespace Compress.Props.C01
open Compress Compress.Flate Compress.Proofs.FlateRefine

/-- **C01.** For every byte string and every schedule of Read buffer lengths, the reader model
    delivers exactly the specification's output — also when the stream is rejected: every byte
    delivered before the error is the byte the reference delivers at that position — and ends
    with the error matching the specification's verdict, having consumed exactly the stream. -/
theorem C01_refines_spec (bytes : List UInt8) (sched : List Nat)
    (hs : ∀ n, sched.getLast? = some n → 0 < n) :
    let bits := Bits.ofBytes bytes
    let r := Impl.run (runFuel bits sched) (Impl.init bits) sched
    let spec := Flate.decodeBits bits
    r.1 = spec.out.toList ∧ r.2.1 = some (errOf spec.verdict) ∧
    (∀ n, spec.verdict = .ok n → r.2.2.total - r.2.2.bits.length = n) :=
  impl_refines_spec bytes sched hs

/-- success (`io.EOF`) exactly when the specification accepts. -/
theorem C01_success_iff (bytes : List UInt8) (sched : List Nat)
    (hs : ∀ n, sched.getLast? = some n → 0 < n) :
    (Impl.run (runFuel (Bits.ofBytes bytes) sched) (Impl.init (Bits.ofBytes bytes)) sched).2.1 = some .eof ↔
    ∃ n, (Flate.decode bytes).verdict = .ok n := by
  have h : (Impl.run (runFuel (Bits.ofBytes bytes) sched) (Impl.init (Bits.ofBytes bytes)) sched).2.1 =
      some (errOf (Flate.decode bytes).verdict) := (impl_refines_spec bytes sched hs).2.1
  rw [h]
  cases hv : (Flate.decode bytes).verdict with
  | ok n => simp [errOf]
  | corrupt => simp [errOf]
  | unexpectedEOF => simp [errOf]

/-- every run ends (the fuel suffices) with one of `io.EOF`, "corrupted", `io.ErrUnexpectedEOF`. -/
theorem C01_terminates_classified (bytes : List UInt8) (sched : List Nat)
    (hs : ∀ n, sched.getLast? = some n → 0 < n) :
    ∃ e : Impl.FErr, (Impl.run (runFuel (Bits.ofBytes bytes) sched) (Impl.init (Bits.ofBytes bytes)) sched).2.1 = some e :=
  ⟨_, (impl_refines_spec bytes sched hs).2.1⟩

/-- a valid stream cut short at any byte: `io.ErrUnexpectedEOF`, only a prefix delivered. -/
theorem C01_cut (bytes : List UInt8) (out : Array UInt8)
    (h : Flate.decode bytes = { out := out, verdict := .ok (8 * bytes.length) }) (k : Nat) (hk : k < bytes.length) :
    (Flate.decode (bytes.take k)).verdict = .unexpectedEOF ∧
    (Flate.decode (bytes.take k)).out.toList <+: out.toList :=
  Compress.Proofs.FlatePrefix.decode_cut bytes out h k hk

/-- whatever follows an accepted stream does not change the result. -/
theorem C01_trailing_ignored (bits ext : Bits) (out : Array UInt8) (n : Nat)
    (h : Flate.decodeBits bits = { out := out, verdict := .ok n }) :
    (Flate.decodeBits (bits ++ ext)).out = out ∧ ∃ m, (Flate.decodeBits (bits ++ ext)).verdict = .ok m :=
  Compress.Proofs.FlatePrefix.decodeBits_ext bits ext out n h

/-- output is bounded by 258 bytes per input bit (no output from nothing). -/
theorem C01_output_bound (bits : Bits) : (Flate.decodeBits bits).out.size ≤ 258 * bits.length :=
  decodeBits_size bits

/-- non-vacuity: a stored block `01 01 00 fe ff 41` decodes to "A" in both. -/
example : (Flate.decode [0x01, 0x01, 0x00, 0xfe, 0xff, 0x41]).out = #[0x41] ∧
    (Flate.decode [0x01, 0x01, 0x00, 0xfe, 0xff, 0x41]).verdict = .ok 48 := by decide

end Compress.Props.C01
