/-
C03 — bzip2 decoding agrees with libbzip2, incl. concatenated streams.

`Compress.Bzip2.Spec` is an executable reading of the bzip2 format (validated on
every run against libbzip2 restarted per stream, Go's compress/bzip2 and this
repository's Reader: family bz).  `Compress.Bzip2.Impl` is the Go-shaped model of
bzip2/reader.go + the reading half of bzip2/prefix.go (Read loop, err latch, the
chunk closure, ReadPrefixCodes with the GeneratePrefixes fast path and
handleDegenerateCodes, Decoder.Init tables), validated call by call (family bzr);
its stages (RLE1 with resumption, MTF, inverse BWT, CRC) are shared with the
specification or validated one by one (family bzst).  Property theorems only;
proofs of the refinement in `Compress.Proofs.BzImpl*`.
-/
import Compress.Bzip2.Spec
import Compress.Bzip2.Writer
import Compress.Proofs.Bzip2Stages
import Compress.Proofs.Bzip2BWT
import Compress.Proofs.Bzip2RoundTrip
import Compress.Proofs.Bzip2Cut
import Compress.Bzip2.Impl
import Compress.Proofs.BzImplMain
import Compress.Proofs.BzImplCut

namespace Compress.Props.C03
open Compress Compress.Bzip2 Compress.Proofs.Bzip2Stages

open Compress.Proofs.Bzip2RoundTrip Compress Compress.Bzip2 Compress.Proofs.BzRT in
/-- **Concatenated streams.** Two complete streams back to back are accepted and decode to the concatenation of their contents (the reader continues into following streams). -/
theorem C03_concatenated (l1 l2 : Nat) (h1 : 1 ≤ l1 ∧ l1 ≤ 9) (h2 : 1 ≤ l2 ∧ l2 ≤ 9)
    (d1 d2 b1 b2 : List UInt8)
    (e1 : encodeStream l1 d1 = some b1) (e2 : encodeStream l2 d2 = some b2) :
    decode (b1 ++ b2) = { out := (d1 ++ d2).toArray, verdict := .ok } :=
  Compress.Proofs.Bzip2RoundTrip.roundtrip_concat l1 l2 h1 h2 d1 d2 b1 b2 e1 e2

open Compress.Proofs.Bzip2Cut Compress Compress.Bzip2 Compress.Proofs.BzCut Compress.Proofs.BzRT in
/-- **Bytes delivered before a failure agree with the reference.** Any cut of an accepted input delivers only a prefix of the full output and is never reported corrupt or deprecated; it is accepted only at the end of one of the concatenated streams. -/
theorem C03_prefix_agrees (bytes : List UInt8) (out : Array UInt8)
    (h : decode bytes = { out := out, verdict := .ok }) (k : Nat) (hk : k < bytes.length) :
    (decode (bytes.take k)).out.toList <+: out.toList ∧
    ((decode (bytes.take k)).verdict = .unexpectedEOF ∨
      ((decode (bytes.take k)).verdict = .ok ∧ 0 < k ∧
        ∃ out2, decode (bytes.drop k) = { out := out2, verdict := .ok })) :=
  Compress.Proofs.Bzip2Cut.decode_cut bytes out h k hk

open Compress.Proofs.Bzip2BWT Compress Compress.Bzip2 in
/-- the inverse BWT the Reader uses undoes the rotation-sort transform. -/
theorem C03_bwt_inverse (xs : List UInt8) (h : xs ≠ []) :
    bwtDecode (bwtSpec xs).1.toArray (bwtSpec xs).2 = xs.toArray :=
  Compress.Proofs.Bzip2BWT.bwt_inverse xs h

open Compress.Proofs.Bzip2Stages Compress Compress.Bzip2 in
/-- move-to-front with run-length symbols decodes what it encodes. -/
theorem C03_mtf_roundtrip (dict vals : List UInt8) (blk : Nat)
    (hd : dict.Nodup) (hv : ∀ v ∈ vals, v ∈ dict) (hb : vals.length ≤ blk) (hn : vals.length < 2 ^ 24) :
    mtfDecode blk dict (mtfEncode dict vals 0 []) 0 0 #[] = some vals.toArray :=
  Compress.Proofs.Bzip2Stages.mtf_roundtrip dict vals blk hd hv hb hn

open Compress.Proofs.Bzip2Stages Compress Compress.Bzip2 in
/-- the resumable RLE1 reader delivers, for every schedule of buffer sizes, a prefix of the one-shot expansion and the whole of it when it reports done. -/
theorem C03_rle1_resumable (blk : List UInt8) (sched : List Nat) :
    let r := readSched { buf := blk.toArray } sched []
    match rle1Decode (blk.length + 1) blk none 0 [] with
    | some full => r.1 <+: full ∧ (r.2 = .done → r.1 = full) ∧ r.2 ≠ .corrupted
    | none => r.2 ≠ .done :=
  Compress.Proofs.Bzip2Stages.rle1_resumable blk sched

open Compress.Proofs.Bzip2Stages Compress Compress.Bzip2 in
/-- the Go code's bit-reversed table CRC is the MSB-first CRC-32 of the format. -/
theorem C03_crc (bs : List UInt8) : crcUpdateGo 0 bs = blockCRC bs :=
  Compress.Proofs.Bzip2Stages.crc_go_block bs

/-- deprecated features are refused as such: a block with the randomisation bit set. -/
example : (match readBlock 1 (bitsBE 0 32 ++ [true]) with | .error v => v == Verdict.deprecated | .ok _ => false) = true := by
  decide


/-! ### refinement: the Go-shaped model of bzip2.Reader against the specification -/

open Compress.Proofs.BzImpl in
/-- **C03 (refinement).** For every byte string and EVERY schedule of `Read` buffer lengths (zeros
    included; the run stops at the first error or when the schedule is used up) the reader model
    `Bzip2.Impl` (Read loop over the resumable RLE1 stage, persistent error, stream header / block /
    footer chunks with the CRC check deferred to the next chunk, `ReadPrefixCodes` with both table
    paths, per-50-symbol tree switching, MTF, inverse BWT) relates to the format specification
    `Bzip2.decode` (libbzip2's behaviour as a function) as follows:
    the bytes delivered are a prefix of the reference output; an error - `io.EOF` included - is
    returned only after ALL of the reference output; `io.EOF` exactly when the reference accepts;
    deprecated exactly when the reference meets a bzip1 header or a randomised block; unexpected
    EOF only where the reference runs out of input; what the reference calls corrupt is reported
    corrupted.  The one class the two may disagree on is recorded in DESIGN.md: on an INVALID
    stream whose damaged prefix code leaves a code word unassigned the Go tables reject that code
    word as soon as it is determined ("corrupted"), the reference only after the longest code
    length, so if the input ends in between the reference says "unexpected EOF"
    (`ErrRel.early`); never the other way round, and never on an input the reference accepts or
    calls deprecated, and never on a cut of an accepted stream (`C03_cut_model`).  Progress: a Read
    with a non-empty buffer delivers a byte or the error. -/
theorem C03_refines_spec (bytes : List UInt8) (sched : List Nat) :
    let r := Bzip2.Impl.run bytes sched
    let s := Bzip2.decode bytes
    r.delivered <+: s.out.toList ∧
    (∀ e, r.err = some e → r.delivered = s.out.toList) ∧
    (r.err = some .eof → s.verdict = .ok) ∧
    (s.verdict = .ok → ∀ e, r.err = some e → e = .eof) ∧
    (r.err = some .deprecated → s.verdict = .deprecated) ∧
    (s.verdict = .deprecated → ∀ e, r.err = some e → e = .deprecated) ∧
    (r.err = some .unexpectedEOF → s.verdict = .unexpectedEOF) ∧
    (s.verdict = .corrupt → ∀ e, r.err = some e → e = .corrupted) ∧
    (r.err = some .corrupted → s.verdict = .corrupt ∨ s.verdict = .unexpectedEOF) ∧
    (s.out.size < (sched.filter (0 < ·)).length → r.err ≠ none) := by
  have h := refines_of_tables (tablesAgree_of_degenerate tables_agree_degenerate) bytes sched
  exact ⟨h.pref, h.all_before_error, h.eof_sound, h.eof_complete, h.deprecated_sound,
    h.deprecated_complete, h.ueof_sound, h.corrupt_complete, h.corrupted_sound, h.progress⟩

open Compress.Proofs.BzImpl in
/-- **success iff the reference accepts**, for every schedule with enough non-empty Reads to reach
    the end (one more than the output has bytes suffices): the run ends with `io.EOF` exactly when
    the reference accepts, and then it delivered exactly the reference output. -/
theorem C03_success_iff (bytes : List UInt8) (sched : List Nat)
    (hs : (Bzip2.decode bytes).out.size < (sched.filter (0 < ·)).length) :
    ((Bzip2.Impl.run bytes sched).err = some .eof ↔ (Bzip2.decode bytes).verdict = .ok) ∧
    ((Bzip2.decode bytes).verdict = .ok →
      (Bzip2.Impl.run bytes sched).delivered = (Bzip2.decode bytes).out.toList) := by
  have h := refines_of_tables (tablesAgree_of_degenerate tables_agree_degenerate) bytes sched
  have hne := h.progress hs
  cases he : (Bzip2.Impl.run bytes sched).err with
  | none => exact absurd he hne
  | some e =>
    refine ⟨⟨fun h1 => h.eof_sound (he ▸ h1), fun hv => by rw [h.eof_complete hv e he]⟩,
      fun _ => h.all_before_error e he⟩

open Compress.Proofs.BzImpl in
/-- **sticky error (C09 for bzip2.Reader).** After the Read that returned an error, every later
    Read, whatever its buffer length, returns no data and the same error and leaves the reader
    unchanged. -/
theorem C03_sticky_error (bytes : List UInt8) (sched : List Nat) (e : Bzip2.Impl.Err)
    (h : (Bzip2.Impl.run bytes sched).err = some e) (m : Nat) :
    Bzip2.Impl.read (Bzip2.Impl.readFuel (Bzip2.Impl.run bytes sched).final) m (Bzip2.Impl.run bytes sched).final =
      ((Bzip2.Impl.run bytes sched).final, [], some e) :=
  (refines_of_tables (tablesAgree_of_degenerate tables_agree_degenerate) bytes sched).sticky e h m

open Compress.Proofs.BzImpl in
/-- **independence of the Read sizes (C10 for bzip2.Reader).** Two schedules over the same input
    deliver comparable byte strings; if both runs ended they delivered the same bytes and ended
    with the same error. -/
theorem C03_schedule_independent (bytes : List UInt8) (s1 s2 : List Nat) :
    ((Bzip2.Impl.run bytes s1).delivered <+: (Bzip2.Impl.run bytes s2).delivered ∨
      (Bzip2.Impl.run bytes s2).delivered <+: (Bzip2.Impl.run bytes s1).delivered) ∧
    (∀ e1 e2, (Bzip2.Impl.run bytes s1).err = some e1 → (Bzip2.Impl.run bytes s2).err = some e2 →
      (Bzip2.Impl.run bytes s1).delivered = (Bzip2.Impl.run bytes s2).delivered ∧ e1 = e2) :=
  schedule_independent (tablesAgree_of_degenerate tables_agree_degenerate) bytes s1 s2

open Compress.Proofs.BzImpl in
/-- **cut streams: prefix and class (C09/C12 for bzip2.Reader).** On any cut of an accepted input,
    under every Read schedule, the reader model delivers only a prefix of the full output, and the
    only errors it can return are `io.ErrUnexpectedEOF` - or `io.EOF` where the cut is the end of
    one of the concatenated streams; never corrupted, never deprecated.  (The early rejection of
    an unassigned code word, `ErrRel.early`, cannot happen on a cut of an accepted stream: the
    model is prefix-monotone - a "corrupted" or "deprecated" behaviour survives every extension of
    the input, `beh_ext` - and the full input ends with io.EOF.) -/
theorem C03_cut_model (bytes : List UInt8) (out : Array UInt8)
    (h : Bzip2.decode bytes = { out := out, verdict := .ok }) (k : Nat) (hk : k < bytes.length)
    (sched : List Nat) :
    (Bzip2.Impl.run (bytes.take k) sched).delivered <+: out.toList ∧
    ∀ e, (Bzip2.Impl.run (bytes.take k) sched).err = some e →
      e = .unexpectedEOF ∨
      (e = .eof ∧ 0 < k ∧ ∃ out2, Bzip2.decode (bytes.drop k) = { out := out2, verdict := .ok }) :=
  cut_class bytes out h k hk sched

open Compress.Proofs.BzImpl in
/-- **the model is prefix-monotone.** If the behaviour of the reader model on an input (all the
    bytes it will ever deliver, then the final error) ends with corrupted or deprecated, then it is
    the same on every extension of the input by whole bytes: what follows a rejected stream cannot
    repair it, nor change the bytes delivered before the rejection. -/
theorem C03_reject_stable (bytes ext : List UInt8)
    (h : (beh (Bzip2.Impl.init (Bits.ofBytesMSB bytes))).2 = .corrupted ∨
         (beh (Bzip2.Impl.init (Bits.ofBytesMSB bytes))).2 = .deprecated) :
    beh (Bzip2.Impl.init (Bits.ofBytesMSB (bytes ++ ext))) = beh (Bzip2.Impl.init (Bits.ofBytesMSB bytes)) := by
  rw [ofBytesMSB_append']
  exact beh_ext _ _ (by rw [Compress.Proofs.BzRT.ofBytesMSB_length]; omega) h

/-- non-vacuity: the reader model on a tiny complete stream ("BZh9" + end magic + zero CRC) ends
    with io.EOF after no data, on "BZ0" with deprecated. -/
example : (Bzip2.Impl.run [0x42, 0x5a, 0x68, 0x39, 0x17, 0x72, 0x45, 0x38, 0x50, 0x90, 0, 0, 0, 0] [1]).err = some .eof ∧
    (Bzip2.Impl.run [0x42, 0x5a, 0x30] [0, 5]).err = some .deprecated := by
  decide

/-- the hypotheses of `C03_success_iff`, `C03_cut_model` and `C03_reject_stable` are satisfiable:
    the 14-byte empty stream is accepted with no output (so one non-empty Read suffices and every
    proper cut of it is a cut of an accepted input), and "BZ0" is a behaviour that ends deprecated. -/
example : (Bzip2.decode [0x42, 0x5a, 0x68, 0x39, 0x17, 0x72, 0x45, 0x38, 0x50, 0x90, 0, 0, 0, 0]).out = #[] ∧
    (Bzip2.decode [0x42, 0x5a, 0x68, 0x39, 0x17, 0x72, 0x45, 0x38, 0x50, 0x90, 0, 0, 0, 0]).verdict = .ok ∧
    (Bzip2.decode [0x42, 0x5a, 0x68, 0x39, 0x17, 0x72, 0x45, 0x38, 0x50, 0x90, 0, 0, 0, 0]).out.size <
      ([1].filter (0 < ·)).length ∧
    (Compress.Proofs.BzImpl.beh (Bzip2.Impl.init (Bits.ofBytesMSB [0x42, 0x5a, 0x30]))).2 = .deprecated := by
  decide

end Compress.Props.C03
