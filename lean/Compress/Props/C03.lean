/-
C03 — bzip2 decoding agrees with libbzip2, incl. concatenated streams.

`Compress.Bzip2.Spec` is an executable reading of the bzip2 format (validated on
every run against libbzip2 restarted per stream, Go's compress/bzip2 and this
repository's Reader: family bz).  There is no Go-shaped model of bzip2.Reader's
control flow; its stages (RLE1 with resumption, MTF, inverse BWT, CRC) are
modelled and validated one by one (family bzst).  Property theorems only.
-/
import Compress.Bzip2.Spec
import Compress.Bzip2.Writer
import Compress.Proofs.Bzip2Stages
import Compress.Proofs.Bzip2BWT
import Compress.Proofs.Bzip2RoundTrip
import Compress.Proofs.Bzip2Cut

namespace Compress.Props.C03
open Compress Compress.Bzip2 Compress.Proofs.Bzip2Stages

open Compress.Proofs.Bzip2RoundTrip Compress Compress.Bzip2 Compress.Proofs.BzRT in
/-- **Concatenated streams.** Two complete streams back to back are accepted and decode to the concatenation of their contents (the reader continues into following streams). -/
theorem C03_concatenated (l1 l2 : Nat) (h1 : 1 ≤ l1 ∧ l1 ≤ 9) (h2 : 1 ≤ l2 ∧ l2 ≤ 9)
    (d1 d2 b1 b2 : List UInt8)
    (e1 : encodeStream l1 d1 = some b1) (e2 : encodeStream l2 d2 = some b2) :
    decode (b1 ++ b2) = { out := (d1 ++ d2).toArray, verdict := .ok } :=
  Compress.Proofs.Bzip2RoundTrip.roundtrip_concat l1 l2 h1 h2 d1 d2 b1 b2 e1 e2

open Compress.Proofs.Bzip2Cut Compress Compress.Bzip2 Compress.Proofs.BzCut Compress.Proofs.BzRT in
/-- **Bytes delivered before a failure agree with the reference.** Any cut of an accepted input delivers only a prefix of the full output and is never reported corrupt or deprecated; it is accepted only at the end of one of the concatenated streams. -/
theorem C03_prefix_agrees (bytes : List UInt8) (out : Array UInt8)
    (h : decode bytes = { out := out, verdict := .ok }) (k : Nat) (hk : k < bytes.length) :
    (decode (bytes.take k)).out.toList <+: out.toList ∧
    ((decode (bytes.take k)).verdict = .unexpectedEOF ∨
      ((decode (bytes.take k)).verdict = .ok ∧ 0 < k ∧
        ∃ out2, decode (bytes.drop k) = { out := out2, verdict := .ok })) :=
  Compress.Proofs.Bzip2Cut.decode_cut bytes out h k hk

open Compress.Proofs.Bzip2BWT Compress Compress.Bzip2 in
/-- the inverse BWT the Reader uses undoes the rotation-sort transform. -/
theorem C03_bwt_inverse (xs : List UInt8) (h : xs ≠ []) :
    bwtDecode (bwtSpec xs).1.toArray (bwtSpec xs).2 = xs.toArray :=
  Compress.Proofs.Bzip2BWT.bwt_inverse xs h

open Compress.Proofs.Bzip2Stages Compress Compress.Bzip2 in
/-- move-to-front with run-length symbols decodes what it encodes. -/
theorem C03_mtf_roundtrip (dict vals : List UInt8) (blk : Nat)
    (hd : dict.Nodup) (hv : ∀ v ∈ vals, v ∈ dict) (hb : vals.length ≤ blk) (hn : vals.length < 2 ^ 24) :
    mtfDecode blk dict (mtfEncode dict vals 0 []) 0 0 #[] = some vals.toArray :=
  Compress.Proofs.Bzip2Stages.mtf_roundtrip dict vals blk hd hv hb hn

open Compress.Proofs.Bzip2Stages Compress Compress.Bzip2 in
/-- the resumable RLE1 reader delivers, for every schedule of buffer sizes, a prefix of the one-shot expansion and the whole of it when it reports done. -/
theorem C03_rle1_resumable (blk : List UInt8) (sched : List Nat) :
    let r := readSched { buf := blk.toArray } sched []
    match rle1Decode (blk.length + 1) blk none 0 [] with
    | some full => r.1 <+: full ∧ (r.2 = .done → r.1 = full) ∧ r.2 ≠ .corrupted
    | none => r.2 ≠ .done :=
  Compress.Proofs.Bzip2Stages.rle1_resumable blk sched

open Compress.Proofs.Bzip2Stages Compress Compress.Bzip2 in
/-- the Go code's bit-reversed table CRC is the MSB-first CRC-32 of the format. -/
theorem C03_crc (bs : List UInt8) : crcUpdateGo 0 bs = blockCRC bs :=
  Compress.Proofs.Bzip2Stages.crc_go_block bs

/-- deprecated features are refused as such: a block with the randomisation bit set. -/
example : (match readBlock 1 (bitsBE 0 32 ++ [true]) with | .error v => v == Verdict.deprecated | .ok _ => false) = true := by
  decide

end Compress.Props.C03
