/-
C17 — XFLATE random access is local: cost follows the chunk, not the stream.

What the theorems say.  `xflate.Reader` reaches the compressed stream in exactly
two ways: `Reset` reads the footer window and the index blocks, and the slow path
of `Seek` positions the underlying ReadSeeker on the start of ONE segment and
hands the inflater an `io.LimitedReader` over that segment's compressed bytes.
So the bytes fetched for an operation are bounded by the compressed sizes of the
segments it *opens*; `Compress.XFlate.Cost` instruments the validated Reader
model (`seekC`/`readC` project onto `seek`/`read`: `C17_seekC_is_seek`,
`C17_readC_is_read`) and the theorems bound which segments can be opened.
Property theorems only; proofs in `Compress.Proofs.XFlateCost`.
-/
import Compress.XFlate.Cost
import Compress.Proofs.XFlateCost
import Compress.Props.C07

namespace Compress.Props.C17
open Compress.XFlate Compress.Proofs.XFlateCost

theorem C17_seekC_is_seek (v : Variant) (L : Layout) (s : RState) (off : Int) (wh : Nat) :
    (seekC v L s off wh).1 = seek v L s off wh := seekC_proj v L s off wh

theorem C17_readC_is_read (v : Variant) (L : Layout) (s : RState) (n : Nat) (adv : Adv) (fuel : Nat) :
    (readC v L s n adv fuel).map (·.1) = read v L s n adv fuel := readC_proj v L s n adv fuel

/-- a seek that reports no opened segment leaves the inflater and the chunk untouched. -/
theorem C17_fast_seek_untouched (v : Variant) (L : Layout) (s : RState) (off : Int) (wh : Nat)
    (h : (seekC v L s off wh).2 = []) (hok : (seek v L s off wh).2.2 = none) :
    (seek v L s off wh).1.seg = s.seg ∧ (seek v L s off wh).1.zout = s.zout ∧
    (seek v L s off wh).1.chk = s.chk ∧ (seek v L s off wh).1.ri = s.ri :=
  seekC_untouched v L s off wh h hok

/-- **Seek(p)** opens at most one segment and it is the chunk *holding* `p` (half-open
    ownership): nothing before the start of that chunk is touched, wherever the cursor was
    and however much data precedes `p`. -/
theorem C17_seek_opens_owner (L : Layout) (plain : List UInt8) (wf : WellFormed L plain)
    (s : RState) (inv : Inv L s) (off : Int) (wh : Nat) :
    (seekC .fixed L s off wh).2.length ≤ 1 ∧
    ∀ j ∈ (seekC .fixed L s off wh).2, Owns L j (seek .fixed L s off wh).2.1 :=
  seek_opens_owner L plain wf s inv off wh

/-- **Read** delivering `k` bytes from position `p` opens only later segments, each at most
    once, each starting inside `[p, p+k]` (or re-opens the byte-less tail segment). -/
theorem C17_read_opens_between (L : Layout) (plain : List UInt8) (wf : WellFormed L plain)
    (s : RState) (inv : Inv L s) (herr : s.err = none) (n : Nat) (adv : Adv)
    (s' : RState) (data : List UInt8) (e : Option Err) (opens : List Nat)
    (h : readC .fixed L s n adv (readFuel L) = some ((s', data, e), opens)) :
    opens.Pairwise (· < ·) ∧
    ∀ j ∈ opens, j ≤ L.recs.length ∧
      ((s.seg < j ∧ s.offset ≤ segLo L j ∧ segLo L j ≤ s.offset + data.length) ∨
       (s.seg = L.recs.length ∧ j = L.recs.length)) :=
  read_opens_between L plain wf s inv herr n adv s' data e opens h

theorem C17_tail_costs_nothing (L : Layout) : segCsize L L.recs.length = 0 := segCsize_tail L

/-- **C17 (access).** `Seek(p)` followed by a `Read` delivering `k` bytes, from any reachable
    state: every segment opened lies between the chunk holding `p` and the chunk holding `p+k`. -/
theorem C17_access_cost (L : Layout) (plain : List UInt8) (wf : WellFormed L plain)
    (s : RState) (inv : Inv L s) (p : Int) (hp : 0 ≤ p) (n : Nat) (adv : Adv)
    (s' : RState) (data : List UInt8) (e : Option Err) (o2 : List Nat)
    (h : readC .fixed L (seek .fixed L s p 0).1 n adv (readFuel L) = some ((s', data, e), o2)) :
    ∀ j ∈ (seekC .fixed L s p 0).2 ++ o2,
      j ≤ L.recs.length ∧ (Owns L j p ∨ (p ≤ segLo L j ∧ segLo L j ≤ p + data.length)) :=
  access_cost L plain wf s inv p hp n adv s' data e o2 h

/-- **C17 (open).** Opening reads the footer window (≤ 64 bytes) and exactly the index blocks:
    the index bytes read are the compressed sizes of the index-type records. -/
theorem C17_open_cost (crc : List UInt8 → Nat) (stream : List UInt8) (r : OpenResult)
    (h : openIndex .fixed crc stream = .ok r) : r.idxBytes = indexBytes r.recs 0 :=
  open_cost crc stream r h

/-- D7: the shortcut test of the pinned commit (`pos <= curr.RawOffset`) opened the chunk
    *before* the one holding `p` when `p` is exactly the end of the chunk after the cursor … -/
theorem C17_orig_violates_D7 :
    (seekC .orig L7 (opened .orig L7) 20 0).2 = [1] ∧ ¬ Owns L7 1 20 := D7_orig_opens_wrong_segment

/-- … the repaired test opens the owner. -/
theorem C17_fixed_D7 :
    (seekC .fixed L7 (opened .fixed L7) 20 0).2 = [2] ∧ Owns L7 2 20 := D7_fixed_opens_owner

/-- non-vacuity: the hypotheses of the access theorem are met by a concrete layout and state. -/
example : WellFormed Compress.Regress.C07.L Compress.Regress.C07.plain ∧
    Inv Compress.Regress.C07.L (opened .fixed Compress.Regress.C07.L) :=
  ⟨Compress.Props.C07.C07_wellformed_witness,
   (Compress.Props.C07.C07_open_inv _ _ Compress.Props.C07.C07_wellformed_witness).1⟩

end Compress.Props.C17
