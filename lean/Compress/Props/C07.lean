/-
C07 — xflate.Reader is a faithful ReadSeeker over the original data.

Property theorems only; the model is `Compress.XFlate.Reader`, the
specification side `Compress.XFlate.ReaderSpec`, lemmas in
`Compress.Proofs.XFlateReader`.
-/
import Compress.XFlate.ReaderSpec
import Compress.Proofs.XFlateReader
import Compress.Regress.C07

namespace Compress.Props.C07
open Compress.XFlate

/-- `index.Search` is the binary search it claims to be: on records sorted by
    raw offset it returns the number of records at or below the target, i.e. the
    index of the first record strictly beyond it. -/
theorem C07_search_spec (recs : List Record) (h : rawSorted recs = true) (p : Int) :
    search recs p = searchSpec recs p :=
  Compress.Proofs.XFlateReader.search_eq_spec recs h p

/-- A successful open leaves the reader at position 0 in a state satisfying the
    simulation invariant. -/
theorem C07_open_inv (L : Layout) (plain : List UInt8) (wf : WellFormed L plain) :
    Inv L (opened .fixed L) ∧ (opened .fixed L).offset = 0 ∧ (opened .fixed L).err = none :=
  Compress.Proofs.XFlateReader.open_inv L plain wf

/-- One Seek: same verdict and position as seeking in the plaintext; a
    rejected Seek changes nothing. -/
theorem C07_seek_refines (L : Layout) (plain : List UInt8) (wf : WellFormed L plain)
    (s : RState) (inv : Inv L s) (off : Int) (wh : Nat) :
    match specSeek plain.length s.offset off wh with
    | some p => (seek .fixed L s off wh).2.2 = none ∧ (seek .fixed L s off wh).2.1 = p ∧
                (seek .fixed L s off wh).1.offset = p ∧ Inv L (seek .fixed L s off wh).1 ∧
                (seek .fixed L s off wh).1.err = none
    | none => (seek .fixed L s off wh).2.2 = some .invalid ∧ (seek .fixed L s off wh).1 = s :=
  Compress.Proofs.XFlateReader.seek_refines L plain wf s inv off wh

/-- One Read, for every buffer length (zero included) and every behaviour of the
    inflater the contract allows: it returns (never spins), delivers the original
    bytes at the current position, advances by what it delivered, and reports
    `io.EOF` exactly at the end. -/
theorem C07_read_refines (L : Layout) (plain : List UInt8) (wf : WellFormed L plain)
    (s : RState) (inv : Inv L s) (herr : s.err = none) (n : Nat) (adv : Adv) :
    ∃ s' data e, read .fixed L s n adv (readFuel L) = some (s', data, e) ∧
      ReadOK plain s.offset n data e ∧ Inv L s' ∧ s'.offset = s.offset + data.length ∧ s'.err = e :=
  Compress.Proofs.XFlateReader.read_refines L plain wf s inv herr n adv

/-- After `io.EOF` every Read keeps returning no data and `io.EOF`. -/
theorem C07_eof_sticky (L : Layout) (s : RState) (h : s.err = some .eof) (n : Nat) (adv : Adv) (fuel : Nat) :
    read .fixed L s n adv fuel = some (s, [], some .eof) :=
  Compress.Proofs.XFlateReader.eof_sticky L s h n adv fuel

/-- **C07.** For every well-formed layout, every sequence of Seek and Read calls
    (any offsets, any whence incl. invalid, any buffer lengths incl. 0) and every
    adversarial inflater schedule, the trace of the Reader model is a trace of a
    ReadSeeker over the plaintext. -/
theorem C07_readseeker (L : Layout) (plain : List UInt8) (wf : WellFormed L plain) (ops : List ROp) :
    TraceOK plain 0 ops (runOps .fixed L (opened .fixed L) ops) :=
  Compress.Proofs.XFlateReader.readseeker L plain wf ops

/-- Non-vacuity: a concrete layout (one ten-byte chunk and the footer) satisfies
    every hypothesis of `C07_readseeker`. -/
theorem C07_wellformed_witness : WellFormed Compress.Regress.C07.L Compress.Regress.C07.plain := by
  have cases3 : ∀ (P : Nat → Prop), P 0 → P 1 → P 2 → ∀ j, j ≤ 2 → P j := by
    intro P h0 h1 h2 j hj
    match j, hj with
    | 0, _ => exact h0
    | 1, _ => exact h1
    | 2, _ => exact h2
  refine ⟨by decide, by decide, by decide, by decide, by decide, ?_, ?_, ?_, ?_⟩
  · exact cases3 _ (by decide) (by decide) (by decide)
  · exact cases3 _ (by decide) (by decide) (by decide)
  · exact cases3 _ (by decide) (by decide) (by decide)
  · exact cases3 _ (by decide) (by decide) (by decide)

example : TraceOK Compress.Regress.C07.plain 0 [.seek 2 0, .seek 5 0, .read 1 []]
    (runOps .fixed Compress.Regress.C07.L (opened .fixed Compress.Regress.C07.L) [.seek 2 0, .seek 5 0, .read 1 []]) :=
  C07_readseeker _ _ C07_wellformed_witness _

/-- The property is false of the code as it was at the pinned commit (D1): the
    model of the original `Seek` produces a trace no ReadSeeker can produce. -/
theorem C07_orig_violates_D1 :
    ¬ TraceOK Compress.Regress.C07.plain 0 [.seek 2 0, .seek 5 0, .read 1 []]
        (runOps .orig Compress.Regress.C07.L (opened .orig Compress.Regress.C07.L) [.seek 2 0, .seek 5 0, .read 1 []]) :=
  Compress.Regress.C07.D1_orig_violates

/-- … and (D2) its `Read` with an empty buffer never returns, whatever the fuel. -/
theorem C07_orig_violates_D2 (fuel : Nat) :
    read .orig Compress.Regress.C07.L (opened .orig Compress.Regress.C07.L) 0 [] fuel = none :=
  Compress.Regress.C07.D2_orig_hangs fuel

end Compress.Props.C07
