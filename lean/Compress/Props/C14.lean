/-
C14 — Reset makes a used Reader or Writer indistinguishable from a new one.

Proved: what Reset carries over is regenerated from /repo and pinned (allocation
bearing buffers and configuration only - no error, pending output, counters,
position; D4 was `rle` in bzip2.Reader.Reset); the one carried buffer whose
*contents* could matter, the LZ77 window, provably does not influence the next
stream; the carried bit reader/writer are re-initialised to a state that depends on
the new source only.  Behavioural equality of whole Readers/Writers after Reset is
decided by the sweep (family life: dirty histories, then Reset, compared with a
fresh instance).  Property theorems only.
-/
import Compress.Facts.Sites
import Compress.Proofs.Window
import Compress.Prefix.BitReader

namespace Compress.Props.C14
open Compress Compress.Window

open Compress.Proofs.Window Compress.Window in
/-- **The reused window does not leak.** Whatever capacity (and contents) an earlier stream left behind (prevCap), the bytes handed out are the append-only LZ77 output of the new stream alone. -/
theorem C14_window_fresh (useTry : Bool) (size prevCap : Nat) (hs : 1 ≤ size) (ops : List Op)
    (hl : Legal size [] ops) :
    (runAll useTry size prevCap ops).1 = specRun [] ops :=
  Compress.Proofs.Window.window_refines useTry size prevCap hs ops hl

/-- `prefix.Reader.Init` leaves nothing of the previous stream: the state is a function of the
    new source and bit order only. -/
theorem C14_bitreader_fresh (src : Prefix.Source) (big : Bool) :
    Prefix.BR.init src big = { src := src, bigEndian := big } := rfl

/-- what every Reset carries, regenerated from /repo (see `Compress.Facts.reset_carried` for the
    full table): e.g. bzip2.Reader.Reset no longer carries the half-read block. -/
theorem C14_bzip2_reader_reset :
    (Compress.Facts.resetOf "bzip2" "*Reader.Reset").map (·.carried) =
      some ["rd=zr.rd", "mtf=zr.mtf", "bwt=zr.bwt", "treeSels=zr.treeSels", "trees1D=zr.trees1D", "syms=zr.syms"] :=
  Compress.Facts.reset_carried.2.2.2.1

end Compress.Props.C14
