/-
C14 — Reset makes a used Reader or Writer indistinguishable from a new one.

Proved: what Reset carries over is regenerated from /repo and pinned (allocation
bearing buffers and configuration only - no error, pending output, counters,
position; D4 was `rle` in bzip2.Reader.Reset); the one carried buffer whose
*contents* could matter, the LZ77 window, provably does not influence the next
stream; the carried bit reader/writer are re-initialised to a state that depends on
the new source only; and for flate.Reader the whole statement is a theorem about the
Go-shaped model: from ANY earlier state, Reset followed by any Read schedule gives the
specification's result for the new stream alone (`C14_flate_reset_fresh`, tied to /repo by
the `flrr` correspondence lines).  Behavioural equality of the other Readers/Writers after
Reset is decided by the sweep (family life: dirty histories, then Reset, compared with a
fresh instance).  Property theorems only.
-/
import Compress.Facts.Sites
import Compress.Proofs.Window
import Compress.Prefix.BitReader
import Compress.Proofs.FlateReset
import Compress.Proofs.BzWApiLatch
import Compress.Proofs.MetaWApi
import Compress.Proofs.WrapInit
import Compress.Bzip2.ReaderApi
import Compress.Proofs.FlateApiRefine
import Compress.Proofs.FlateApiReset

namespace Compress.Props.C14
open Compress Compress.Window

open Compress.Proofs.Window Compress.Window in
/-- **The reused window does not leak.** Whatever capacity (and contents) an earlier stream left behind (prevCap), the bytes handed out are the append-only LZ77 output of the new stream alone. -/
theorem C14_window_fresh (useTry : Bool) (size prevCap : Nat) (hs : 1 ≤ size) (ops : List Op)
    (hl : Legal size [] ops) :
    (runAll useTry size prevCap ops).1 = specRun [] ops :=
  Compress.Proofs.Window.window_refines useTry size prevCap hs ops hl

/-- `prefix.Reader.Init` leaves nothing of the previous stream: the state is a function of the
    new source and bit order only. -/
theorem C14_bitreader_fresh (src : Prefix.Source) (big : Bool) :
    Prefix.BR.init src big = { src := src, bigEndian := big } := rfl

/-- what every Reset carries, regenerated from /repo (see `Compress.Facts.reset_carried` for the
    full table): e.g. bzip2.Reader.Reset no longer carries the half-read block. -/
theorem C14_bzip2_reader_reset :
    (Compress.Facts.resetOf "bzip2" "*Reader.Reset").map (·.carried) =
      some ["rd=zr.rd", "mtf=zr.mtf", "bwt=zr.bwt", "treeSels=zr.treeSels", "trees1D=zr.trees1D", "syms=zr.syms"] :=
  Compress.Facts.reset_carried.2.2.2.1

open Compress.Flate Compress.Proofs.FlateRefine in
/-- **flate.Reader: Reset = new (Go-shaped model).** Let `s0` be ANY state of the reader model -
    a stream read to the end, abandoned half-way (pending output, a copy in progress), failed on
    corrupt data; any window capacity and any stale window contents; any counters.  After
    `Reset` onto `bytes`, for every schedule of Read sizes the reader delivers exactly the RFC 1951
    specification's output for `bytes`, ends with the matching error and has consumed exactly the
    stream - precisely what a newly constructed reader does (`C01_refines_spec`). -/
theorem C14_flate_reset_fresh (s0 : Impl.FState) (bytes : List UInt8) (sched : List Nat)
    (hs : ∀ n, sched.getLast? = some n → 0 < n) :
    let bits := Bits.ofBytes bytes
    let r := Impl.run (runFuel bits sched) (Impl.reset s0 bits) sched
    let spec := Flate.decodeBits bits
    r.1 = spec.out.toList ∧ r.2.1 = some (errOf spec.verdict) ∧
    (∀ n, spec.verdict = .ok n → r.2.2.total - r.2.2.bits.length = n) :=
  reset_refines_spec s0 bytes sched hs

open Compress.Flate Compress.Proofs.FlateRefine in
/-- the same, stated as indistinguishability: a reset reader and a new reader deliver the same
    bytes and end with the same error, whatever the two Read schedules. -/
theorem C14_flate_reset_eq_new (s0 : Impl.FState) (bytes : List UInt8) (s1 s2 : List Nat)
    (h1 : ∀ n, s1.getLast? = some n → 0 < n) (h2 : ∀ n, s2.getLast? = some n → 0 < n) :
    let bits := Bits.ofBytes bytes
    (Impl.run (runFuel bits s1) (Impl.reset s0 bits) s1).1 = (Impl.run (runFuel bits s2) (Impl.init bits) s2).1 ∧
    (Impl.run (runFuel bits s1) (Impl.reset s0 bits) s1).2.1 = (Impl.run (runFuel bits s2) (Impl.init bits) s2).2.1 :=
  reset_state_eq_fresh s0 bytes s1 s2 h1 h2

-- non-vacuity: a state with a full, wrapped window, pending output and a latched error is a
-- legitimate `s0`; the window buffer `Reset` re-slices really carries its stale contents
example : (Compress.Flate.Impl.reset
    { bits := [true], total := 9, err := some .corrupted, toRead := [1, 2, 3],
      dict := { size := 32768, hist := Array.replicate 32768 0xAA, cap := 32768, wrPos := 5, full := true } }
    []).dict.hist.getD 7 0 = 0xAA := by
  simp [Compress.Flate.Impl.reset, Compress.Window.Dict.initOver, Compress.Flate.Impl.maxHistSize]
/-- bzip2.Writer.Reset (API-level model): whatever the history, the state after Reset is the state of
    a fresh writer of that level on the new sink - error, `done`, header flag, checksums, RLE1 stage,
    bit writer, counters all start over. -/
theorem C14_bzip2_writer_reset (s : Bzip2.BzW) (sk : XFlate.Sink) :
    s.reset sk = ({ level := s.level, rle := { cap := 0 } } : Bzip2.BzW).reset sk :=
  Compress.Proofs.BzWApi.reset_fresh s sk

/-- ... in particular equal to what NewWriter returns for the same level and sink. -/
theorem C14_bzip2_writer_reset_new (lvl : Int) (sk : XFlate.Sink) (s0 s : Bzip2.BzW)
    (h : Bzip2.newBzW lvl sk = some s0) (hl : s.level = s0.level) : s.reset sk = s0 :=
  Compress.Proofs.BzWApi.newBzW_eq_reset lvl sk s0 h s hl

/-- meta.Writer.Reset (followed by setting FinalMode): equal to a new writer. -/
theorem C14_meta_writer_reset (s : Meta.MW) (sk : XFlate.Sink) (f : Meta.FinalMode) :
    (s.reset sk).setFinal f = (({} : Meta.MW).reset sk).setFinal f :=
  Compress.Proofs.MetaWApi.reset_fresh s sk f

open Compress.Proofs.Wrap Compress.Prefix.Wrap in
/-- **prefix.Reader.Init re-initialises the wrap.go wrapper.**  From ANY earlier state of the Reader
    (`old`: any bit buffer and counters, a `bytesReader`/`stringReader` with any cache contents
    left by any history, a `buffer`, or no earlier use) and for ANY source - the same object
    re-targeted by its own Reset, another object at any position, of any of the three wrapped kinds -
    the state after `Init` is exactly the state of a new Reader on that source: wrapper
    `pos = 0`, empty cache, zeroed array.  Hence nothing cached for the earlier source can be
    served: every later sequence of wrapper calls satisfies the contract relative to the NEW
    contents (`C10_wrapper_contract`), and every ReadBits script returns what a new Reader returns. -/
theorem C14_wrapper_reinit (old : Option WR) (src : Src) (big : Bool) (ns : List Nat) :
    WR.init old src big = { bigEndian := big, w := Wrapper.fresh src } ∧
    WR.init old src big = WR.init none src big ∧
    wreadScript (WR.init old src big) ns = wreadScript (WR.init none src big) ns :=
  ⟨(init_fresh old src big).1, (init_fresh old src big).2, reinit_script old src big ns⟩

open Compress.Proofs.Wrap Compress.Prefix.Wrap in
/-- ... spelled out for the caching wrappers: after `Init` on `rd`, every call sequence answers from
    `rd` alone, for every earlier history. -/
theorem C14_wrapper_reinit_serves_new (old : Option WR) (rd : Rd) (big : Bool) (ops : List Compress.Proofs.Wrap.Op) :
    (WR.init old (.bytes rd) big).w = .bytes (CRd.fresh rd) ∧
    (WR.init old (.strings rd) big).w = .strings (CRd.fresh rd) ∧
    ContractOK rd (trace (CRd.fresh rd) ops) :=
  reinit_contract old rd big ops

-- non-vacuity: a used Reader (4 bytes of the old source cached, bits buffered), the same object
-- re-targeted by Reset and passed to Init again: the first Peek serves the new contents
example :
    let r0 : Compress.Prefix.Wrap.WR :=
      { w := .bytes Compress.Proofs.Wrap.usedW, bufBits := 5, numBits := 3, offset := 9 }
    let r1 := Compress.Prefix.Wrap.WR.init (some r0) (.bytes (Compress.Proofs.Wrap.usedW.rd.reset [9, 8, 7])) false
    Compress.Proofs.Wrap.usedW.buf = [1, 2, 3, 4] ∧ (r1.w.peek 2).2.1 = [9, 8] := by decide
open Compress.Bzip2.ReaderApi in
/-- **bzip2.Reader: Reset = new (API-level model).** From ANY state - closed, failed, in the middle
    of a block - Reset onto a source gives the state of a newly constructed reader on that source,
    so every later call sequence behaves as on a fresh reader. -/
theorem C14_bzip2_reader_reset_fresh (r : Reader) (src : Src) (ops : List Bzip2.ReaderApi.Op) :
    r.reset src = newReader src ∧ Reader.run (r.reset src) ops = Reader.run (newReader src) ops :=
  ⟨rfl, rfl⟩

open Compress.Flate.Api Compress.Proofs.FlateRefine in
/-- **flate.Reader: Reset = new (API-level model, incl. Close and a failing source).** From ANY
    state `r0` of the API model - closed, failed on corrupt data or on a source error, abandoned with
    pending output, any stale window - Reset onto a source and a newly constructed reader on that
    source deliver the same bytes for every two Read schedules, end with the same error, have that
    error latched with nothing pending and are not closed, so that `Close` returns the same on both
    (`C09_flate_close_result`). -/
theorem C14_flate_api_reset_fresh (r0 : Reader) (src : Src) (s1 s2 : List Nat)
    (h1 : ∀ n, s1.getLast? = some n → 0 < n) (h2 : ∀ n, s2.getLast? = some n → 0 < n) :
    ∃ ra rb got e, Reader.drive (runFuel src.bits s1) (r0.reset src) s1 #[] = (got, some e, ra) ∧
      Reader.drive (runFuel src.bits s2) (newReader src) s2 #[] = (got, some e, rb) ∧
      ra.err = some e ∧ rb.err = some e ∧ ra.done = false ∧ rb.done = false ∧
      (ra.close).2 = (rb.close).2 := by
  obtain ⟨ra, a1, a2, a3, _, _⟩ := Compress.Proofs.FlateApi.reset_drive_spec r0 src s1 h1
  obtain ⟨rb, b1, b2, b3, _, _⟩ := Compress.Proofs.FlateApi.new_drive_spec src s2 h2
  refine ⟨ra, rb, _, _, a1, b1, a2, b2, a3, b3, ?_⟩
  rw [Compress.Proofs.FlateApi.close_eq, Compress.Proofs.FlateApi.close_eq, a2, b2, a3, b3]
  split <;> rfl

open Compress.Flate.Api in
/-- **flate.Reader: Reset = new for EVERY call sequence (API-level model), while the window buffer
    has not grown.** From ANY state `r0` whose window buffer still has its initial capacity (4096,
    or never allocated) - closed, failed, abandoned with pending output, a copy in progress, any
    stale window contents - `Reset` onto a source followed by ANY sequence of Reads and Closes,
    interleaved in any way, returns call by call exactly what the same sequence returns on a newly
    constructed reader on that source (bytes and error of every Read, result of every Close), and
    leaves the same OutputOffset and InputOffset (the sequence is arbitrary, so this holds after
    every call).  The capacity hypothesis cannot be dropped: `Reset` keeps the window's backing array,
    a grown window is flushed to the caller in larger pieces, and `Close` drops what is pending - see
    the evaluated counterexample at the end of `Proofs/FlateApiReset.lean`. -/
theorem C14_flate_api_reset_fresh_general (r0 : Reader) (src : Src) (ops : List Flate.Api.Op)
    (hn : ∀ op ∈ ops, op.noReset = true)
    (hc : r0.core.dict.cap = 0 ∨ r0.core.dict.cap = 4096) :
    (Reader.run (r0.reset src) ops).2 = (Reader.run (newReader src) ops).2 ∧
    (Reader.run (r0.reset src) ops).1.outputOffset = (Reader.run (newReader src) ops).1.outputOffset ∧
    (Reader.run (r0.reset src) ops).1.inputOffset = (Reader.run (newReader src) ops).1.inputOffset :=
  Compress.Proofs.FlateApiReset.reset_fresh_general r0 src ops hn hc

open Compress.Flate.Api in
/-- **... and in general the capacity of the retained window buffer is ALL that survives Reset.** Two
    readers reset onto the same source from ANY two states with the same window capacity (whatever
    else differs: stale window contents, pending output, latched errors, `done`, counters, trees,
    a copy in progress) answer every sequence of Reads and Closes identically, call by call, and
    agree on both counters. -/
theorem C14_flate_api_reset_capacity_only (r0 r1 : Reader) (src : Src) (ops : List Flate.Api.Op)
    (hn : ∀ op ∈ ops, op.noReset = true) (hc : r1.core.dict.cap = r0.core.dict.cap) :
    (Reader.run (r1.reset src) ops).2 = (Reader.run (r0.reset src) ops).2 ∧
    (Reader.run (r1.reset src) ops).1.outputOffset = (Reader.run (r0.reset src) ops).1.outputOffset ∧
    (Reader.run (r1.reset src) ops).1.inputOffset = (Reader.run (r0.reset src) ops).1.inputOffset :=
  Compress.Proofs.FlateApiReset.reset_cap_only r0 r1 src ops hn hc

end Compress.Props.C14
