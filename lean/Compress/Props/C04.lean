/-
C04 — bzip2.Writer output is lossless, interoperable, and split-independent.

`Compress.Bzip2.Writer.encodeStream level data` is the model of bzip2.Writer: it is a
function of the level and of the concatenation of everything written, so
split-independence of the *model* is by construction; that the Go Writer emits
exactly these bytes for every split is the correspondence (family bzw, random
splits), and libbzip2 / compress/bzip2 / this Reader decoding them is the oracle.
Property theorems only.
-/
import Compress.Bzip2.Writer
import Compress.Bzip2.Spec
import Compress.Proofs.Bzip2RoundTrip
import Compress.Proofs.Bzip2Cut
import Compress.Proofs.Bzip2Stages
import Compress.Proofs.Bzip2BWT

namespace Compress.Props.C04
open Compress Compress.Bzip2

open Compress.Proofs.Bzip2RoundTrip Compress Compress.Bzip2 Compress.Proofs.BzRT in
/-- the Writer never reaches its panic branches: a stream is produced for every input and every level 1..9. -/
theorem C04_writer_total (level : Nat) (hl : 1 ≤ level ∧ level ≤ 9) (data : List UInt8) :
    ∃ bytes, encodeStream level data = some bytes :=
  Compress.Proofs.Bzip2RoundTrip.encode_total level hl data

open Compress.Proofs.Bzip2RoundTrip Compress Compress.Bzip2 Compress.Proofs.BzRT in
/-- **Lossless.** The format specification decodes the emitted stream to exactly the input. -/
theorem C04_lossless (level : Nat) (hl : 1 ≤ level ∧ level ≤ 9) (data : List UInt8) (bytes : List UInt8)
    (h : encodeStream level data = some bytes) :
    decode bytes = { out := data.toArray, verdict := .ok } :=
  Compress.Proofs.Bzip2RoundTrip.roundtrip level hl data bytes h

open Compress.Proofs.Bzip2RoundTrip Compress Compress.Bzip2 Compress.Proofs.BzRT in
/-- every prefix code written is complete and within the 20-bit limit of the format, also when the optimal code would be deeper. -/
theorem C04_codes_fit_20_bits (cnts : List Nat) (h2 : 2 ≤ cnts.length) (ls : List Nat)
    (h : treeLens cnts = some ls) :
    ls.length = cnts.length ∧ (∀ l ∈ ls, 1 ≤ l ∧ l ≤ maxPrefixBits) ∧
    Compress.Prefix.KraftComplete ls :=
  Compress.Proofs.Bzip2RoundTrip.tree_lens_ok cnts h2 ls h

open Compress.Proofs.Bzip2Stages Compress Compress.Bzip2 in
/-- RLE1 never overfills the block buffer and expands back to the bytes it consumed. -/
theorem C04_rle1 (cap : Nat) (xs : List UInt8) :
    let r := rle1Encode cap xs
    r.2 ≤ xs.length ∧ r.1.length ≤ cap ∧ (r.2 = xs.length ∨ cap ≤ r.1.length + 1) ∧
    rle1Decode (r.1.length + 1) r.1 none 0 [] = some (xs.take r.2) :=
  Compress.Proofs.Bzip2Stages.rle1_roundtrip cap xs

open Compress.Proofs.Bzip2BWT Compress Compress.Bzip2 in
/-- the forward BWT is a permutation of the block with an origin pointer inside it. -/
theorem C04_bwt_shape (xs : List UInt8) (h : xs ≠ []) :
    (bwtSpec xs).1.length = xs.length ∧ (bwtSpec xs).2 < xs.length ∧ (bwtSpec xs).1.Perm xs :=
  Compress.Proofs.Bzip2BWT.bwtSpec_shape xs h

/-- levels outside 1..9 (0 = default) are refused at construction. -/
theorem C04_levels (lvl : Int) : validLevel lvl = true ↔ (lvl = 0 ∨ (1 ≤ lvl ∧ lvl ≤ 9)) := by
  simp [validLevel]

example : validLevel 10 = false ∧ validLevel (-1) = false ∧ validLevel 9 = true := by decide

end Compress.Props.C04
