-- Root of the `Compress` library: executable models (core-only), generated facts,
-- proofs and property theorems.
import Compress.Util
import Compress.XFlate.Index
import Compress.XFlate.Reader
import Compress.Bits
import Compress.Meta.Codec
import Compress.XFlate.Open
import Compress.XFlate.ReaderSpec
