-- Root of the `Compress` library: executable models (core-only), generated facts,
-- proofs and property theorems. `lake build Compress` checks everything.
import Compress.Props.C05
import Compress.Props.C06
import Compress.Props.C07
import Compress.Props.C13
import Compress.Props.C16
import Compress.Props.C18
import Compress.Props.C20
import Compress.Facts.Consts
import Compress.Facts.Sites
import Compress.Proofs.Window
import Compress.Proofs.BitIO
import Compress.Proofs.Bzip2Stages
import Compress.Proofs.Bzip2BWT
import Compress.Flate.Impl
import Compress.Bzip2.Spec
