package main

import (
	"bytes"
	"compress/flate"
	"encoding/hex"
	"fmt"
	"io"

	dflate "github.com/dsnet/compress/flate"
	"github.com/dsnet/compress/xflate"
)

type logW struct{ calls [][]byte }

func (l *logW) Write(b []byte) (int, error) { l.calls = append(l.calls, append([]byte(nil), b...)); return len(b), nil }

func main() {
	l := &logW{}
	xw, _ := xflate.NewWriter(l, &xflate.WriterConfig{Level: 6, ChunkSize: 4, IndexSize: 2})
	xw.Write([]byte{0})
	xw.Flush(xflate.FlushFull)
	xw.Flush(xflate.FlushFull)
	xw.Close()
	var all []byte
	for _, c := range l.calls {
		fmt.Println(hex.EncodeToString(c))
		all = append(all, c...)
	}
	for i := range l.calls {
		var pre []byte
		for _, c := range l.calls[:i+1] {
			pre = append(pre, c...)
		}
		zr, _ := dflate.NewReader(bytes.NewReader(pre), nil)
		out, err := io.ReadAll(zr)
		out2, err2 := io.ReadAll(flate.NewReader(bytes.NewReader(pre)))
		fmt.Printf("upto %d: dsnet %d %v | std %d %v\n", i, len(out), err, len(out2), err2)
	}
}
