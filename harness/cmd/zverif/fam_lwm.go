package main

// Family "lwm": bzip2.Writer and meta.Writer against their API-level Lean
// models (Compress/Bzip2/WriterApi.lean, Compress/Meta/WriterApi.lean) under
// sink faults. Scenario lines are of kind "lw" and are executed by execLife,
// which evaluates the C13/C18/C14 clauses on the trace and hands the per-call
// results (count, error class, InputOffset, OutputOffset, NumBlocks, the bytes
// each sink received) to the model comparison.

import (
	"fmt"
	"strings"

	dbzip2 "github.com/dsnet/compress/bzip2"
	"github.com/dsnet/compress/xflate"
)

// faultFreeLen is the number of bytes the writer emits for the pieces over a sink that never fails.
func faultFreeLen(typ string, lvl int, pieces [][]byte) int {
	fs := &faultSink{budget: -1}
	if typ == "bzip2" {
		zw, err := dbzip2.NewWriter(fs, &dbzip2.WriterConfig{Level: lvl})
		if err != nil {
			return 0
		}
		for _, p := range pieces {
			zw.Write(p)
		}
		zw.Close()
	} else {
		mw := xflate.VerifNewMetaWriter(fs)
		xflate.VerifSetFinalMode(mw, 1+lvl%2)
		for _, p := range pieces {
			mw.Write(p)
		}
		mw.Close()
	}
	return len(fs.got)
}

func genLwm(r *Rand, tier string, emit func(string)) {
	thorough := tier == "thorough"
	wops := func(pieces [][]byte) []string {
		var ops []string
		for _, p := range pieces {
			ops = append(ops, "W:"+hx(p))
		}
		return ops
	}
	lowEntropy := func(n int) []byte { // runs, so that RLE1 counts and long prefix codes take part
		d := make([]byte, 0, n)
		for len(d) < n {
			b := byte(r.Intn(4))
			k := 1 + r.Intn(9)
			if r.Intn(6) == 0 {
				k = 250 + r.Intn(20)
			}
			for ; k > 0 && len(d) < n; k-- {
				d = append(d, b)
			}
		}
		return d
	}
	split := func(d []byte, k int) [][]byte {
		var out [][]byte
		for i := 0; i < k-1 && len(d) > 0; i++ {
			n := r.Intn(len(d) + 1)
			out = append(out, d[:n])
			d = d[n:]
		}
		return append(out, d)
	}
	tails := [][]string{
		{"C"},
		{"C", "C"},
		{"C", "C", "W:" + hx(r.Bytes(3)), "C"},
		{"C", "W:" + hx(r.Bytes(5)), "W:", "C"},
		{"C", "Z:-", "W:" + hx(r.Bytes(20)), "C", "C"},
		{"Z:-", "W:" + hx(r.Bytes(20)), "C"},
		{"C", "Z:7:short:0:9", "W:" + hx(r.Bytes(40)), "C", "C", "Z:-", "C"},
		{"W:" + hx(r.Bytes(9)), "C", "Z:3:hard:1:9", "C", "C", "W:01", "Z:-", "W:" + hx(r.Bytes(9)), "C"},
	}
	// (1) a fault at every byte position of small outputs: hard/short x once/forever x token/Closed-coded error
	type job struct {
		typ    string
		lvl    int
		pieces [][]byte
		stride int
	}
	var jobs []job
	for _, n := range []int{0, 1, 23, 40, 100} {
		jobs = append(jobs, job{"meta", 1 + r.Intn(2), split(r.Bytes(n), 1+r.Intn(3)), 1})
	}
	jobs = append(jobs, job{"meta", 2, split(lowEntropy(300), 3), 1})
	for _, n := range []int{0, 1, 30} {
		jobs = append(jobs, job{"bzip2", 1 + r.Intn(9), split(r.Bytes(n), 1+r.Intn(3)), 1})
	}
	jobs = append(jobs, job{"bzip2", 0, split(lowEntropy(400), 3), 1})
	// outputs longer than the 504-byte staging threshold of prefix.Writer (several sink writes per block)
	jobs = append(jobs, job{"bzip2", 1 + r.Intn(9), split(r.Bytes(700), 2), 7})
	jobs = append(jobs, job{"bzip2", 1 + r.Intn(9), split(r.Bytes(1800+r.Intn(600)), 3), 37})
	if thorough {
		jobs = append(jobs, job{"bzip2", 9, split(r.Bytes(6000), 4), 41})
		jobs = append(jobs, job{"bzip2", 3, split(lowEntropy(30000), 4), 11})
		jobs = append(jobs, job{"meta", 1, split(r.Bytes(2000), 5), 3})
		jobs = append(jobs, job{"bzip2", 2, split(r.Bytes(700), 2), 1})
	}
	for _, j := range jobs {
		total := faultFreeLen(j.typ, j.lvl, j.pieces)
		for pos := 0; pos <= total; pos++ {
			near := pos%504 < 12 || pos%504 > 496 || pos < 24 || pos > total-12 // staging boundaries, header, footer
			if pos%j.stride != 0 && !near {
				continue
			}
			for m := 0; m < 4; m++ {
				tag := 9
				if (pos+m)%5 == 0 {
					tag = closedTag(j.typ)
				}
				tail := tails[(pos+m)%len(tails)]
				emit(fmt.Sprintf("lw t=%s level=%d sink=%d:%s:%d:%d ops=%s", j.typ, j.lvl, pos, []string{"hard", "short"}[m%2], m/2, tag,
					strings.Join(append(wops(j.pieces), tail...), "|")))
			}
		}
	}
	// (2) random op sequences, faults on the first and on later sinks
	nR := 400
	if thorough {
		nR = 6000
	}
	spec := func(max int) string {
		if r.Intn(3) == 0 {
			return "-"
		}
		tag := 9
		if r.Intn(4) == 0 {
			tag = 100 + r.Intn(3)
		}
		return fmt.Sprintf("%d:%s:%d:%d", r.Intn(max), []string{"hard", "short"}[r.Intn(2)], r.Intn(2), tag)
	}
	for i := 0; i < nR; i++ {
		typ := []string{"bzip2", "meta"}[r.Intn(2)]
		lvl := 1 + r.Intn(9)
		if r.Intn(20) == 0 {
			lvl = []int{-1, 0, 10}[r.Intn(3)]
		}
		var ops []string
		for k := 1 + r.Intn(8); k > 0; k-- {
			switch r.Intn(7) {
			case 0, 1, 2:
				n := r.Intn(200)
				if typ == "bzip2" && r.Intn(6) == 0 {
					n = 500 + r.Intn(1500)
				}
				d := r.Bytes(n)
				if r.Intn(3) == 0 {
					d = lowEntropy(n)
				}
				ops = append(ops, "W:"+hx(d))
			case 3:
				ops = append(ops, "W:")
			case 4, 5:
				ops = append(ops, "C")
			case 6:
				ops = append(ops, "Z:"+spec(300))
			}
		}
		ops = append(ops, "C")
		emit(fmt.Sprintf("lw t=%s level=%d sink=%s ops=%s", typ, lvl, spec(400), strings.Join(ops, "|")))
	}
	// (3) level 1 holds 100000 RLE1 bytes per block: a Write that fills the block flushes it from inside
	// Write. The Lean BWT is a rotation sort (about 15 s per full block), so: one scenario in the quick
	// tier, four in the thorough tier; run-free random data so that the block fills after 100000 bytes.
	nBig := 1
	if thorough {
		nBig = 4
	}
	for i := 0; i < nBig; i++ {
		d := r.Bytes(100000 + 40 + r.Intn(300))
		cut := 99000 + r.Intn(990)
		sink := []string{"-", fmt.Sprintf("%d:short:1:9", 20000+r.Intn(70000)), fmt.Sprintf("%d:hard:0:101", 504*(1+r.Intn(150))), fmt.Sprintf("%d:hard:1:9", 100000+r.Intn(400))}[(i+1)%4]
		emit(fmt.Sprintf("lw t=bzip2 level=1 model=1 sink=%s ops=W:%s|W:%s|W:%s|C|C|W:00", sink, hx(d[:cut]), hx(d[cut:]), hx(r.Bytes(10))))
	}
}

func init() {
	register(&Family{
		Name: "lwm",
		Rule: "bzip2.Writer and meta.Writer vs their API-level Lean models: a sink fault at every byte position of small outputs (and around every 504-byte staging boundary, header and footer of larger ones) x hard/short x once/forever x token/Closed-coded error, each followed by one of 8 tails (second Close, Write after Close, Reset onto a fresh or failing sink after success or failure); random Write/Close/Reset sequences with faulty first and later sinks and invalid levels; a level-1 input that fills the 100000-byte block inside Write. Compared per call: count, error class, InputOffset, OutputOffset, NumBlocks, and the bytes every sink received. The oracle clauses of family life (kind lw) are evaluated on the same runs. Distinct by scenario",
		Gen:  genLwm,
		Exec: execLife,
	})
}
