package main

// Family "bzr": dsnet bzip2.Reader call by call against the Go-shaped Lean model
// Bzip2.Impl (kind `bzr` of the driver): the inputs of family "bz" (capped in size),
// each under several schedules of Read buffer lengths; every Read's bytes, the two public
// counters after it and the error that ends the run are compared.

import (
	"bytes"
	"fmt"
	"io"
	"strconv"
	"strings"
	"time"

	dbzip2 "github.com/dsnet/compress/bzip2"
)

const (
	bzrMaxIn  = 12000 // input bytes the model is run on
	bzrMaxOut = 30000 // decoded bytes the model is run on
)

// fnv64s: FNV-1a 64 of a string (the driver hashes long transcripts the same way).
func fnv64s(s string) uint64 {
	h := uint64(14695981039346656037)
	for i := 0; i < len(s); i++ {
		h = (h ^ uint64(s[i])) * 1099511628211
	}
	return h
}

// bzrRun drives one Reader with the schedule (stopping at the first error or when the
// schedule is used up) and prints the transcript the way the driver does.
func bzrRun(in []byte, sched []int) (res string, all []byte, last error) {
	zr, _ := dbzip2.NewReader(bytes.NewReader(in), nil)
	var recs []string
	for _, n := range sched {
		buf := make([]byte, n)
		k, err := zr.Read(buf)
		all = append(all, buf[:k]...)
		recs = append(recs, fmt.Sprintf("%s:%d:%d", outSummary(buf[:k]), zr.InputOffset, zr.OutputOffset))
		last = err
		if err != nil {
			break
		}
	}
	body := strings.Join(recs, "|")
	if len(body) > 3000 {
		body = fmt.Sprintf("%s..%d..%d", body[:200], len(body), fnv64s(body))
	}
	cls := errClass(last)
	return fmt.Sprintf("%s;%s;%d", body, cls, len(recs)), all, last
}

func bzrSchedules(in []byte, outLen int) [][]int {
	h := uint64(len(in))*0x9e3779b97f4a7c15 + 11
	for _, b := range in[:min(len(in), 24)] {
		h = (h ^ uint64(b)) * 1099511628211
	}
	rr := NewRand(h)
	rep := func(pat []int, total int) []int {
		var s []int
		for len(s) < total {
			s = append(s, pat...)
		}
		return s
	}
	var out [][]int
	// big reads: enough of them to reach the end of any stream
	out = append(out, rep([]int{100000}, 40))
	// the remaining shapes rotate with the input so that the quick tier stays cheap
	switch rr.Intn(4) {
	case 0: // one byte at a time (plus calls that see the error)
		if outLen <= 6000 {
			out = append(out, rep([]int{1}, outLen+12))
		} else {
			out = append(out, rep([]int{997}, outLen/997+40))
		}
	case 1: // zero-length reads interleaved
		out = append(out, rep([]int{0, 0, 1, 0, 7, 300, 0}, 7*(outLen/308+12)))
	case 2: // random sizes
		var s []int
		for got := 0; got < outLen+3000 && len(s) < 4000; {
			n := rr.Pick([]int{0, 1, 1, 2, 3, 7, 49, 50, 51, 255, 256, 4096, 40000})
			s = append(s, n)
			got += n
		}
		for k := 0; k < 12; k++ {
			s = append(s, 1+rr.Intn(9))
		}
		out = append(out, s)
	default: // a schedule that stops before the end, and one starting with zero-length reads
		out = append(out, []int{0, 3, 0, 5})
		out = append(out, rep([]int{0, 0, 4096}, 3*(outLen/4096+12)))
	}
	return out
}

func execBzr(o *Out, id, line string) {
	_, kv := parseLine(line)
	in := unhx(kv["in"])
	var full []byte
	var ferr error
	var pnc interface{}
	t0 := time.Now()
	if !withWatchdogSec(60, func() { _, pnc = catch(func() { full, ferr = dsnetBunzipAll(in) }) }) {
		o.Violate("C08", "bzip2.Reader did not finish within 60s", "bz-hang", line)
		return
	}
	if pnc != nil {
		o.Violate("C08", fmt.Sprintf("bzip2.Reader panicked: %v", pnc), "bz-panic", line)
		return
	}
	if len(full) > bzrMaxOut {
		o.Count("skipped-large-output")
		return
	}
	// an under-subscribed tree makes handleDegenerateCodes walk up to 2^21 code words ("slow by
	// design"); the model does the same walk about a hundred times slower, so the quick tier keeps
	// one in four of such inputs (chosen by content) and every tier runs them under one schedule
	slow := time.Since(t0) > 6*time.Millisecond
	if slow {
		o.Count("slow-tree")
		if o.tier != "thorough" && fnv64s(kv["in"])%4 != 0 {
			o.Count("skipped-slow-tree")
			return
		}
	}
	fcls := errClass(ferr)
	if ferr == nil {
		fcls = "eof"
	}
	o.Count("dsnet-" + fcls)
	scheds := bzrSchedules(in, len(full))
	if slow {
		scheds = scheds[1:2]
	}
	for si, sched := range scheds {
		res, got, last := bzrRun(in, sched)
		var ss []string
		for _, v := range sched {
			ss = append(ss, strconv.Itoa(v))
		}
		sid := fmt.Sprintf("%ss%d", id, si)
		inLine := ""
		key := ""
		if si == 0 {
			inLine = line
			if len(full) > 0 || ferr == nil {
				key = kv["in"]
			}
		}
		o.Emit(sid, inLine, "bzr id="+sid+" in="+hx(in)+" sched="+strings.Join(ss, ","), res, key)
		// oracle: whatever the schedule, the bytes are a prefix of what ReadAll delivers, and a run
		// that ended did so with ReadAll's verdict and output (C10); a latched error is sticky (C09)
		if !bytes.HasPrefix(full, got) {
			o.Violate("C10", fmt.Sprintf("bzip2 Read sizes %v deliver bytes that ReadAll does not", sched[:min(len(sched), 8)]), "bzr-prefix", line)
		}
		if last != nil {
			lcls := errClass(last)
			if lcls != fcls || !bytes.Equal(got, full) {
				o.Violate("C10", fmt.Sprintf("bzip2 Read sizes %v end with %s after %d bytes, ReadAll with %s after %d", sched[:min(len(sched), 8)], lcls, len(got), fcls, len(full)), "bzr-verdict", line)
			}
		}
	}
	// sticky error: after the first error every further Read (any size) returns (0, same error)
	zr, _ := dbzip2.NewReader(bytes.NewReader(in), nil)
	_, e1 := io.Copy(io.Discard, zr)
	if e1 == nil {
		e1 = io.EOF
	}
	for _, n := range []int{0, 1, 4096, 0} {
		k, e2 := zr.Read(make([]byte, n))
		if k != 0 || errClass(e2) != errClass(e1) {
			o.Violate("C09", fmt.Sprintf("bzip2 Read(%d) after %v returned (%d, %v)", n, e1, k, e2), "bzr-sticky", line)
			break
		}
	}
}

func genBzr(r *Rand, tier string, emit func(string)) {
	// the inputs of family bz; the quick tier keeps every third of the bulk (the one-byte strings,
	// the header sweep and everything else that is cheap are kept whole in both tiers by size)
	i := 0
	keep := 3
	if tier == "thorough" {
		keep = 8
	}
	genBz(r, tier, func(line string) {
		_, kv := parseLine(line)
		in := kv["in"]
		if len(in)/2 > bzrMaxIn {
			return
		}
		i++
		if len(in)/2 > 8 && i%keep != 0 {
			return
		}
		emit("bzr in=" + in)
	})
}

func init() {
	register(&Family{
		Name: "bzr",
		Rule: "bzip2.Reader call by call against the Go-shaped Lean model: the inputs of family bz (streams of libbzip2 and this package's Writer, synthesised blocks with complete, under- and over-subscribed trees, concatenations, deprecated headers, mutations, truncations; inputs up to 12000 bytes and 30000 decoded bytes), each under a schedule of big reads and one of: one-byte reads, zero-length reads interleaved, random sizes, a schedule that stops early. Compared: the bytes of every Read, InputOffset and OutputOffset after it, the final error class. Non-trivial = produced output or accepted",
		Gen:  genBzr,
		Exec: execBzr,
	})
}
