package main

// Family "meta": the XFLATE meta codec (C16): encoder output, decoder verdicts,
// ReverseSearch, and the DEFLATE-silence of every block.

import (
	"bytes"
	"compress/flate"
	"encoding/binary"
	"fmt"
	"io"
	"strconv"
	"strings"

	"github.com/dsnet/compress/xflate"
)

// logSink records every Write call (the meta Writer issues one per block).
type logSink struct {
	calls [][]byte
}

func (s *logSink) Write(b []byte) (int, error) {
	s.calls = append(s.calls, append([]byte(nil), b...))
	return len(b), nil
}
func (s *logSink) all() []byte { return bytes.Join(s.calls, nil) }

func metaEncode(payload []byte, final int, splits []int) (sink *logSink, nblocks int64, inOff, outOff int64, err error) {
	sink = &logSink{}
	mw := xflate.VerifNewMetaWriter(sink)
	xflate.VerifSetFinalMode(mw, final)
	rest := payload
	for _, n := range splits {
		if n > len(rest) {
			n = len(rest)
		}
		if _, err = mw.Write(rest[:n]); err != nil {
			return
		}
		rest = rest[n:]
	}
	if _, err = mw.Write(rest); err != nil {
		return
	}
	err = mw.Close()
	return sink, mw.NumBlocks, mw.InputOffset, mw.OutputOffset, err
}

type metaDecoded struct {
	payload  []byte
	final    int
	blocks   int64
	consumed int64
	err      error
}

func metaDecode(in []byte) metaDecoded {
	mr := xflate.VerifNewMetaReader(bytes.NewReader(in))
	out, err := io.ReadAll(mr)
	return metaDecoded{out, int(mr.FinalMode), mr.NumBlocks, mr.InputOffset, err}
}

func (d metaDecoded) String() string {
	if d.err != nil {
		return "err:" + errClass(d.err)
	}
	return fmt.Sprintf("ok:%s:%d:%d:%d", hx(d.payload), d.final, d.blocks, d.consumed)
}

// deflateSilent reports how a DEFLATE decoder sees bytes b: number of output
// bytes, whether it reached a final block, and how many input bytes it consumed.
func deflateSilent(b []byte, appendEnd bool) (nout int, consumedAll bool, err error) {
	in := b
	if appendEnd {
		in = append(append([]byte(nil), b...), xfEndBlock...)
	}
	br := bytes.NewReader(in)
	zr := flate.NewReader(br)
	out, err := io.ReadAll(zr)
	return len(out), br.Len() == 0, err
}

func execMeta(o *Out, id, line string) {
	kind, kv := parseLine(line)
	switch kind {
	case "menc":
		payload := unhx(kv["payload"])
		final, _ := strconv.Atoi(kv["final"])
		var splits []int
		for _, s := range strings.Split(kv["splits"], ",") {
			if n, err := strconv.Atoi(s); err == nil {
				splits = append(splits, n)
			}
		}
		sink, nb, inOff, outOff, err := metaEncode(payload, final, splits)
		o.Count(fmt.Sprintf("enc-final%d", final))
		o.Count("enc-len-bucket-" + bucket(len(payload)))
		if err != nil {
			o.Violate("C16", "meta Writer failed: "+err.Error(), "enc-error", line)
			return
		}
		var hs []string
		for _, c := range sink.calls {
			hs = append(hs, hx(c))
		}
		all := sink.all()
		key := ""
		if len(payload) > 0 {
			key = kv["payload"] + "/" + kv["final"]
		}
		o.Emit(id+"e", line, fmt.Sprintf("menc id=%se payload=%s final=%d", id, hx(payload), final), strings.Join(hs, ","), key)
		// --- oracle: C16 clauses on the real code
		if int64(len(sink.calls)) != nb || inOff != int64(len(payload)) || outOff != int64(len(all)) {
			o.Violate("C16", fmt.Sprintf("counters: NumBlocks=%d writes=%d InputOffset=%d OutputOffset=%d len=%d", nb, len(sink.calls), inOff, outOff, len(all)), "enc-counters", line)
		}
		for _, c := range sink.calls {
			if len(c) < 12 || len(c) > 64 {
				o.Violate("C16", fmt.Sprintf("block of %d bytes (must be 12..64)", len(c)), "enc-block-size", line)
			}
		}
		if len(payload) <= 22 && len(sink.calls) != 1 {
			o.Violate("C16", fmt.Sprintf("payload of %d bytes took %d blocks", len(payload), len(sink.calls)), "enc-fit22", line)
		}
		d := metaDecode(all)
		if d.err != nil || !bytes.Equal(d.payload, payload) || d.final != final || d.blocks != nb || d.consumed != int64(len(all)) {
			o.Violate("C16", "round trip failed: "+d.String(), "enc-roundtrip", line)
		}
		nout, consumedAll, zerr := deflateSilent(all, final != 2)
		if zerr != nil || nout != 0 || !consumedAll {
			o.Violate("C16", fmt.Sprintf("DEFLATE decoder on the encoding: out=%d consumedAll=%v err=%v", nout, consumedAll, zerr), "enc-deflate", line)
		}
		if final != 2 {
			// without the appended end block the stream must NOT be complete
			if _, _, zerr2 := deflateSilent(all, false); zerr2 == nil {
				o.Violate("C16", "encoding without FinalStream terminates a DEFLATE stream", "enc-deflate-final", line)
			}
		}
		lastStart := len(all) - len(sink.calls[len(sink.calls)-1])
		if rs := xflate.VerifMetaReverseSearch(all); rs != lastStart {
			o.Violate("C16", fmt.Sprintf("ReverseSearch=%d, last block starts at %d", rs, lastStart), "enc-reverse-search", line)
		}
		// magic only at block starts (4-byte windows and the short tail windows)
		starts := map[int]bool{}
		p := 0
		for _, c := range sink.calls {
			starts[p] = true
			p += len(c)
		}
		for i := 0; i < len(all); i++ {
			var m uint32
			for j := 3; j >= 0; j-- {
				m <<= 8
				if i+j < len(all) {
					m |= uint32(all[i+j])
				}
			}
			if m&0xfffe3fc6 == 0x05860004 && !starts[i] {
				o.Violate("C16", fmt.Sprintf("block signature matches at offset %d which is not a block start", i), "enc-magic-inside", line)
				break
			}
		}
		// split independence
		if len(payload) > 1 {
			s2, _, _, _, err2 := metaEncode(payload, final, []int{1, len(payload) / 2})
			if err2 != nil || !bytes.Equal(s2.all(), all) {
				o.Violate("C16", "output depends on how the payload was split over Write calls", "enc-split", line)
			}
		}
		// model decodes what Go encoded
		o.Emit(id+"d", "", fmt.Sprintf("mdec id=%sd in=%s", id, hx(all)), d.String(), "")
		o.Emit(id+"r", "", fmt.Sprintf("mrs id=%sr in=%s", id, hx(all)), strconv.Itoa(xflate.VerifMetaReverseSearch(all)), "")
	case "mdec":
		in := unhx(kv["in"])
		d := metaDecode(in)
		o.Count("dec-" + strings.SplitN(d.String(), ":", 3)[0] + "-" + errClass(d.err))
		key := ""
		if d.err == nil && d.blocks > 0 {
			key = kv["in"]
		}
		o.Emit(id, line, fmt.Sprintf("mdec id=%s in=%s", id, hx(in)), d.String(), key)
		o.Emit(id+"r", "", fmt.Sprintf("mrs id=%sr in=%s", id, hx(in)), strconv.Itoa(xflate.VerifMetaReverseSearch(in)), "")
		if d.err == nil && d.blocks > 0 {
			// counters after every small Read; FinalMode after reading exactly the payload and closing
			for _, sz := range []int{1, 7} {
				mr := xflate.VerifNewMetaReader(bytes.NewReader(in))
				var got []byte
				buf := make([]byte, sz)
				for {
					k, e := mr.Read(buf)
					got = append(got, buf[:k]...)
					if mr.OutputOffset != int64(len(got)) || mr.InputOffset > int64(len(in)) {
						o.Violate("C11", fmt.Sprintf("meta.Reader with %d-byte reads: %d bytes delivered, OutputOffset=%d InputOffset=%d of %d", sz, len(got), mr.OutputOffset, mr.InputOffset, len(in)), "meta-counters", line)
						break
					}
					if e != nil {
						break
					}
				}
				if !bytes.Equal(got, d.payload) {
					o.Violate("C10", fmt.Sprintf("meta.Reader with %d-byte reads delivers different data", sz), "meta-read-size", line)
					o.Violate("C16", fmt.Sprintf("meta.Reader with %d-byte reads does not deliver the encoded payload (%d of %d bytes)", sz, len(got), len(d.payload)), "meta-read-size", line)
				}
			}
			// exact consumption through every source shape, with bytes following the meta stream
			if d.final != 0 {
				tr := []byte{0xde, 0xad, 0xbe, 0xef}
				for _, src := range []string{"byte", "byteeof", "bytes", "buffer", "bufio16", "readonly"} {
					sr := mkSource(src, append(append([]byte{}, in[:d.consumed]...), tr...), -1, 0, nil, []int{2, 5})
					mr := xflate.VerifNewMetaReader(sr)
					got, e := io.ReadAll(mr)
					rest, _ := io.ReadAll(sr)
					if e != nil || !bytes.Equal(got, d.payload) {
						o.Violate("C10", fmt.Sprintf("meta.Reader through source %s: err=%v, %d of %d payload bytes", src, e, len(got), len(d.payload)), "meta-source-shape", line)
						break
					}
					exactSrc := src == "byte" || src == "byteeof" || src == "bytes" || src == "buffer"
					if mr.InputOffset != int64(d.consumed) || (exactSrc && !bytes.Equal(rest, tr)) {
						o.Violate("C11", fmt.Sprintf("meta.Reader through source %s: stream of %d bytes, InputOffset=%d, %d bytes left unread (trailer %d)", src, d.consumed, mr.InputOffset, len(rest), len(tr)), "meta-over-read", line)
						break
					}
				}
			}
			mr := xflate.VerifNewMetaReader(bytes.NewReader(in))
			exact := make([]byte, len(d.payload))
			if _, e := io.ReadFull(mr, exact); e == nil && d.blocks == 1 && len(exact) > 0 { // the one block has been decoded
				mr.Close()
				if int(mr.FinalMode) != d.final {
					o.Violate("C16", fmt.Sprintf("after reading exactly the payload and Close, FinalMode=%d, after reading to EOF %d", int(mr.FinalMode), d.final), "finalmode-after-close", line)
				}
			}
		}
		// converse: what the meta decoder accepts is an empty DEFLATE block sequence
		if d.err == nil && d.blocks > 0 {
			acc := in[:d.consumed]
			nout, consumedAll, zerr := deflateSilent(acc, d.final != 2)
			if zerr != nil || nout != 0 || !consumedAll {
				o.Violate("C16", fmt.Sprintf("meta decoder accepted %d bytes that DEFLATE reads as out=%d consumedAll=%v err=%v", d.consumed, nout, consumedAll, zerr), "dec-converse", line)
			}
			o.Count("dec-accepted")
		}
	}
}

func bucket(n int) string {
	switch {
	case n == 0:
		return "0"
	case n <= 2:
		return "1-2"
	case n <= 22:
		return "3-22"
	case n <= 31:
		return "23-31"
	case n <= 200:
		return "32-200"
	}
	return "200+"
}

func genMeta(r *Rand, tier string, emit func(string)) {
	thorough := tier == "thorough"
	enc := func(p []byte, final int, splits string) {
		emit(fmt.Sprintf("menc payload=%s final=%d splits=%s", hx(p), final, splits))
	}
	// exhaustive small payloads
	for f := 0; f < 3; f++ {
		enc(nil, f, "-")
		for a := 0; a < 256; a++ {
			enc([]byte{byte(a)}, f, "-")
		}
	}
	step := 37
	if thorough {
		step = 1
	}
	for f := 0; f < 3; f++ {
		for v := f; v < 65536; v += step {
			enc([]byte{byte(v), byte(v >> 8)}, f, "1")
		}
	}
	// single-block payloads of extreme bit weight
	for n := 0; n <= 40; n++ {
		for _, fill := range []byte{0x00, 0xff, 0x01, 0x80, 0xaa, 0x55, 0x0f, 0xfe, 0x7f} {
			p := bytes.Repeat([]byte{fill}, n)
			enc(p, r.Intn(3), "-")
		}
	}
	// XFLATE footers for back sizes
	nFoot := 1 << 12
	if thorough {
		nFoot = 1 << 21
	}
	stepF := 1
	if thorough {
		stepF = 7 // 2^21/7 footers, plus the dense low range below
	}
	foot := func(back uint64) {
		var b [16]byte
		n := copy(b[:], []byte{'X', 'F', 0})
		n += binary.PutUvarint(b[n:], back)
		enc(b[:n], 2, "-")
	}
	for i := 0; i < nFoot; i += stepF {
		foot(uint64(i))
	}
	for i := 0; i < 400; i++ {
		foot(r.U64() >> uint(r.Intn(64)))
	}
	// random payloads of any length with random splits
	nRand := 1500
	if thorough {
		nRand = 30000
	}
	for i := 0; i < nRand; i++ {
		n := r.Intn(60)
		if r.Intn(8) == 0 {
			n = r.Intn(4096)
		}
		p := r.Bytes(n)
		if r.Intn(3) == 0 { // sparse / dense bit weights
			for j := range p {
				if r.Bool() {
					p[j] &= byte(1 << uint(r.Intn(8)))
				} else {
					p[j] |= ^byte(1 << uint(r.Intn(8)))
				}
			}
		}
		var sp []string
		for k := r.Intn(4); k > 0; k-- {
			sp = append(sp, strconv.Itoa(r.Intn(n+1)))
		}
		enc(p, r.Intn(3), joinOr(sp, ","))
	}
	// converse: mutations, truncations and splices of valid encodings, and junk
	nMut := 4000
	if thorough {
		nMut = 80000
	}
	for i := 0; i < nMut; i++ {
		p := r.Bytes(r.Intn(50))
		s, _, _, _, err := metaEncode(p, r.Intn(3), nil)
		if err != nil {
			continue
		}
		b := s.all()
		switch r.Intn(6) {
		case 0: // flip one bit
			if len(b) > 0 {
				b[r.Intn(len(b))] ^= 1 << uint(r.Intn(8))
			}
		case 1: // truncate
			b = b[:r.Intn(len(b)+1)]
		case 2: // trailing junk
			b = append(b, r.Bytes(r.Intn(8))...)
		case 3: // flip a bit in the header region
			if len(b) > 4 {
				b[r.Intn(5)] ^= 1 << uint(r.Intn(8))
			}
		case 4: // overwrite a byte
			if len(b) > 0 {
				b[r.Intn(len(b))] = byte(r.U64())
			}
		default: // two encodings back to back
			s2, _, _, _, _ := metaEncode(r.Bytes(r.Intn(20)), r.Intn(3), nil)
			b = append(b, s2.all()...)
		}
		emit("mdec in=" + hx(b))
	}
	for i := 0; i < 300; i++ {
		emit("mdec in=" + hx(r.Bytes(r.Intn(40))))
	}
	// decoder-directed synthesis: blocks built from the decoder's side for every
	// value of every header field (incl. the ones the encoder never emits)
	nSyn := 6000
	if thorough {
		nSyn = 120000
	}
	for i := 0; i < nSyn; i++ {
		emit("mdec in=" + hx(synthMetaBlocks(r, i)))
	}
	// all strings of up to 2 bytes
	emit("mdec in=-")
	for a := 0; a < 256; a++ {
		emit(fmt.Sprintf("mdec in=%02x", a))
	}
	if thorough {
		for v := 0; v < 65536; v++ {
			emit(fmt.Sprintf("mdec in=%04x", v))
		}
	}
}

// synthMetaBlock writes one meta block the way decodeBlock parses it: every
// header field is chosen freely (hclen over all 8 even values incl. 0, pads,
// final bits), the symbol section is made to carry exactly 2^huffLen ones with
// the terminator set, and each consistency rule is broken with small probability.
func synthMetaBlock(r *Rand, w *bitW, k int) {
	pert := func() bool { return r.Intn(40) == 0 }
	hclenField := uint64(2 * (k % 8)) // numHCLen = 4,6,...,18
	finalStream := uint64(r.Intn(2))
	start := w.nbit
	// symbols first (need their length to choose the pads)
	numHCLen := 4 + hclenField
	huffLen := uint(8 - (numHCLen-4)/2)
	huffRange := 1 << huffLen
	bits := make([]uint, 257)
	bits[256] = 1
	ones := 1
	if pert() {
		bits[256], ones = 0, 0
	}
	// flags byte: bit1 finalMeta, bit2 invert, bits 3..7 size
	if finalStream == 1 && !pert() || finalStream == 0 && r.Bool() {
		bits[1] = 1
		ones++
	}
	want := huffRange
	if pert() {
		want += r.Intn(3) - 1
	}
	for tries := 0; ones < want && tries < 100000; tries++ {
		j := 2 + r.Intn(254)
		if r.Intn(3) == 0 && j+8 < 256 { // clustered ones
			for q := j; q < j+8 && ones < want; q++ {
				if bits[q] == 0 {
					bits[q] = 1
					ones++
				}
			}
		} else if bits[j] == 0 {
			bits[j] = 1
			ones++
		}
	}
	var sw bitW
	last := uint(0)
	for idx := 1; idx < 257; {
		run := 1
		for idx+run < 257 && bits[idx+run] == bits[idx] {
			run++
		}
		b := bits[idx]
		switch {
		case b == 0 && run >= 11 && r.Intn(8) != 0:
			c := min(run, 138)
			if r.Intn(4) == 0 {
				c = 11 + r.Intn(c-10)
			}
			sw.bits(7, 3) // symRepZero 111
			sw.bits(uint64(c-11), 7)
			idx += c
			last = 0
		case b == last && run >= 3 && r.Intn(4) != 0:
			c := min(run, 6)
			if idx+c == 257 && c < 6 && pert() {
				c++ // the last repeat spills one symbol past the 257 the block may hold
			}
			sw.bit(1) // symRepLast 110
			sw.bit(1)
			sw.bit(0)
			sw.bits(uint64(c-3), 2)
			idx += c
		case b == 0:
			sw.bit(0)
			idx++
			last = 0
		default:
			sw.bit(1) // symOne 10
			sw.bit(0)
			idx++
			last = 1
		}
	}
	hdrBits := uint(32) + 3*uint(numHCLen-1-5+1) + 1
	if numHCLen < 6 {
		hdrBits = 32 + 3 + 1
	}
	total := hdrBits + sw.nbit + 1 + huffLen
	pads := (8 - total%8) % 8
	if pert() {
		pads = uint(r.Intn(8))
	}
	magic := uint64(0x05860004) | finalStream | uint64(pads)<<3 | hclenField<<13
	w.bits(magic, 32)
	for i := uint64(5); i+1 < numHCLen; i++ {
		if pert() {
			w.bits(uint64(r.Intn(8)), 3)
		} else {
			w.bits(0, 3)
		}
	}
	if pert() {
		w.bits(uint64(r.Intn(8)), 3)
	} else {
		w.bits(2, 3)
	}
	if pert() {
		w.bit(1)
	} else {
		w.bit(0)
	}
	for i := uint(0); i < sw.nbit; i++ {
		w.bit(uint(sw.buf[i/8]>>(i%8)) & 1)
	}
	if pert() {
		w.bits(uint64(r.Intn(1<<pads)), pads)
	} else {
		w.bits(0, pads)
	}
	if pert() {
		w.bit(1)
	} else {
		w.bit(0)
	}
	eob := uint64(huffRange - 1)
	if pert() {
		eob = uint64(r.Intn(huffRange))
	}
	w.bits(eob, huffLen)
	_ = start
	w.align()
}

func synthMetaBlocks(r *Rand, k int) []byte {
	var w bitW
	n := 1
	if r.Intn(5) == 0 {
		n = 1 + r.Intn(3)
	}
	for i := 0; i < n; i++ {
		synthMetaBlock(r, &w, k+i*3)
	}
	b := w.buf
	if r.Intn(12) == 0 {
		b = append(b, r.Bytes(r.Intn(4))...)
	}
	return b
}

func init() {
	register(&Family{
		Name: "meta",
		Rule: "meta codec: encodes of all payloads <= 1 byte x 3 final modes, a stride (quick) or all (thorough) of the 2-byte payloads, constant-fill payloads 0..40 bytes of extreme bit weight, every XFLATE footer for a range of back sizes plus random 63-bit ones, random payloads up to 4 KiB with random write splits; decodes of mutated/truncated/spliced encodings, random junk and all strings <= 1 (quick) / <= 2 (thorough) bytes; non-trivial = non-empty payload (encode) or an accepted non-empty stream (decode); distinct by payload+mode / input bytes",
		Gen:  genMeta,
		Exec: execMeta,
	})
}
