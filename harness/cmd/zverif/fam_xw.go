package main

// Family "xw": op sequences on xflate.Writer over a (possibly failing) sink.
// Serves C05 (round trip, split independence, config refusal), C06 (plain
// DEFLATE), C12 (flush durability, cuts), C13 (sink failures), C18 (lifecycle).

import (
	"bytes"
	"compress/flate"
	"fmt"
	"hash/fnv"
	"io"
	"strconv"
	"strings"

	dflate "github.com/dsnet/compress/flate"
	"github.com/dsnet/compress/xflate"
)

// faultSink mirrors the Lean `Sink`.
type faultSink struct {
	got     []byte
	budget  int // <0: never fails
	short   bool
	forever bool
	tag     int
	fails   int
	calls   int
}

func (s *faultSink) Write(b []byte) (int, error) {
	s.calls++
	if s.budget < 0 || len(b) <= s.budget {
		s.got = append(s.got, b...)
		if s.budget >= 0 {
			s.budget -= len(b)
		}
		return len(b), nil
	}
	acc := 0
	if s.short {
		acc = s.budget
	}
	s.got = append(s.got, b[:acc]...)
	if s.forever {
		s.budget = 0
	} else {
		s.budget = -1
	}
	s.fails++
	return acc, injected(s.tag)
}

func parseSinkSpec(spec string) *faultSink {
	s := &faultSink{budget: -1, forever: true, tag: 7}
	f := strings.Split(spec, ":")
	if len(f) == 4 {
		s.budget, _ = strconv.Atoi(f[0])
		s.short = f[1] == "short"
		s.forever = f[2] == "1"
		s.tag, _ = strconv.Atoi(f[3])
	}
	return s
}

func xflateErrClass(err error) string {
	switch err.(type) {
	case flate.CorruptInputError:
		return "corrupt"
	case flate.InternalError:
		return "internal"
	}
	return errClass(err)
}

// inflateAll decodes b with Go's compress/flate: output, bytes left unread, error (nil = clean end).
func inflateAll(b []byte) (out []byte, unread int, err error) {
	br := bytes.NewReader(b)
	zr := flate.NewReader(br)
	out, err = io.ReadAll(zr)
	return out, br.Len(), err
}

// dsnetInflateAll decodes b with this repository's flate.Reader.
func dsnetInflateAll(b []byte) (out []byte, unread int, err error) {
	br := bytes.NewReader(b)
	zr, _ := dflate.NewReader(br, nil)
	out, err = io.ReadAll(zr)
	return out, br.Len(), err
}

type xwRun struct {
	results []string
	sinks   []*faultSink
	oracle  []string
	written []byte // data accepted by Write calls since the last reset
	flushOK []int  // len(sink.got) at each Flush that returned nil
	flushIn []int  // len(written) at those points
	closed  bool
	closeOK bool
	refused bool
	anyErr  bool
	lastIn  int64
	lastOut int64
}

func runXW(kv map[string]string, ops []string, o *Out, line string) *xwRun {
	r := &xwRun{}
	sink := parseSinkSpec(kv["sink"])
	r.sinks = append(r.sinks, sink)
	lastFails := 0
	xflate.VerifTraceFn = func(ev string, n, emitted int64, err error) {
		cur := r.sinks[len(r.sinks)-1]
		em := cur.got[len(cur.got)-int(emitted):]
		failed := 0
		if cur.fails != lastFails {
			failed = 1
			lastFails = cur.fails
		}
		r.oracle = append(r.oracle, fmt.Sprintf("%s:%d:%s:%s:%d", ev, n, hx(em), xflateErrClass(err), failed))
	}
	defer func() { xflate.VerifTraceFn = nil }()
	var conf *xflate.WriterConfig
	if kv["conf"] != "0" {
		lv, _ := strconv.Atoi(kv["level"])
		ch, _ := strconv.ParseInt(kv["chunk"], 10, 64)
		ix, _ := strconv.ParseInt(kv["index"], 10, 64)
		conf = &xflate.WriterConfig{Level: lv, ChunkSize: ch, IndexSize: ix}
	}
	xw, err := xflate.NewWriter(sink, conf)
	if err != nil {
		r.refused = true
		return r
	}
	for _, op := range ops {
		if kv["zero"] == "1" {
			// the exported statistics are documented as safe to set to any value
			xw.InputOffset, xw.OutputOffset = 0, 0
		}
		f := strings.SplitN(op, ":", 2)
		cur := r.sinks[len(r.sinks)-1]
		before := len(cur.got)
		switch f[0] {
		case "W":
			d := unhx(f[1])
			n, e := xw.Write(d)
			r.results = append(r.results, fmt.Sprintf("W:%d:%s:%d:%d", n, errClass(e), xw.InputOffset, xw.OutputOffset))
			if n < 0 || n > len(d) {
				o.Violate("C13", fmt.Sprintf("Write returned count %d for %d bytes", n, len(d)), "write-count", line)
				n = 0
			}
			r.written = append(r.written, d[:n]...)
			if e != nil {
				r.anyErr = true
			}
			if r.closed && (e == nil || len(cur.got) != before) {
				o.Violate("C18", "Write after a successful Close returned nil or emitted bytes", "write-after-close", line)
			}
			o.Count("op-write")
		case "F":
			m, _ := strconv.Atoi(f[1])
			e := xw.Flush(xflate.FlushMode(m))
			r.results = append(r.results, fmt.Sprintf("F:%s:%d:%d", errClass(e), xw.InputOffset, xw.OutputOffset))
			if e == nil {
				r.flushOK = append(r.flushOK, len(cur.got))
				r.flushIn = append(r.flushIn, len(r.written))
			} else if m >= 0 && m <= 2 {
				r.anyErr = true
			}
			if r.closed && (e == nil || len(cur.got) != before) {
				o.Violate("C18", "Flush after a successful Close returned nil or emitted bytes", "flush-after-close", line)
			}
			o.Count(fmt.Sprintf("op-flush%d", m))
		case "C":
			e := xw.Close()
			r.results = append(r.results, fmt.Sprintf("C:%s:%d:%d", errClass(e), xw.InputOffset, xw.OutputOffset))
			if r.closed && (e != nil || len(cur.got) != before) {
				o.Violate("C18", "second Close after a successful Close returned an error or emitted bytes", "close-idempotent", line)
			}
			if e == nil && !r.closed {
				r.closed, r.closeOK = true, true
			}
			if e != nil {
				r.anyErr = true
			}
			o.Count("op-close")
		case "Z":
			ns := parseSinkSpec(f[1])
			r.results = append(r.results, "Z:"+hx(cur.got))
			r.sinks = append(r.sinks, ns)
			lastFails = 0
			xw.Reset(ns)
			r.written, r.flushOK, r.flushIn = nil, nil, nil
			r.closed, r.closeOK, r.anyErr = false, false, false
			o.Count("op-reset")
		}
		// C13 counters: OutputOffset equals what the current sink accepted
		cur = r.sinks[len(r.sinks)-1]
		if xw.OutputOffset != int64(len(cur.got)) {
			o.Violate("C13", fmt.Sprintf("after %s: OutputOffset=%d but the sink accepted %d bytes", f[0], xw.OutputOffset, len(cur.got)), "out-offset", line)
		}
		if xw.InputOffset != int64(len(r.written)) {
			o.Violate("C13", fmt.Sprintf("after %s: InputOffset=%d but Write accepted %d bytes", f[0], xw.InputOffset, len(r.written)), "in-offset", line)
		}
	}
	r.lastIn, r.lastOut = xw.InputOffset, xw.OutputOffset
	return r
}

func execXW(o *Out, id, line string) {
	_, kv := parseLine(line)
	ops := strings.Split(kv["ops"], "|")
	if kv["ops"] == "" || kv["ops"] == "-" {
		ops = nil
	}
	r := runXW(kv, ops, o, line)
	lv, _ := strconv.Atoi(kv["level"])
	ch, _ := strconv.ParseInt(kv["chunk"], 10, 64)
	if r.refused {
		o.Count("refused")
		if kv["conf"] != "0" && ch >= 0 && lv >= -2 && lv <= 9 {
			o.Violate("C05", "NewWriter refused a valid configuration", "config-refused", line)
		}
		o.Emit(id, line, fmt.Sprintf("xw id=%s conf=%s level=%s chunk=%s index=%s sink=%s ops=- oracle=-", id, kv["conf"], kv["level"], kv["chunk"], kv["index"], kv["sink"]), "refused", "cfg/"+kv["level"]+"/"+kv["chunk"])
		return
	}
	if kv["conf"] != "0" && (ch < 0 || lv < -2 || lv > 9) {
		o.Violate("C05", "NewWriter accepted an invalid configuration", "config-accepted", line)
	}
	last := r.sinks[len(r.sinks)-1]
	res := append(append([]string{}, r.results...), "sink="+hx(last.got))
	key := ""
	if len(ops) >= 2 {
		h := fnv.New64a()
		h.Write([]byte(line))
		key = fmt.Sprintf("%x", h.Sum64())
	}
	scn := fmt.Sprintf("xw id=%s conf=%s level=%s chunk=%s index=%s sink=%s ops=%s oracle=%s", id, kv["conf"], kv["level"], kv["chunk"], kv["index"], kv["sink"], joinOr(ops, "|"), joinOr(r.oracle, ";"))
	o.Emit(id, line, scn, strings.Join(res, "|"), key)

	faulty := false
	for _, s := range r.sinks {
		if s.fails > 0 {
			faulty = true
		}
	}
	data := r.written
	out := last.got
	// ---- C13: no false success; failures keep failing
	if faulty && last.fails > 0 {
		o.Count("sink-failed")
		if r.closeOK {
			o.Violate("C13", "Close returned nil although the sink had refused bytes", "close-nil-after-fault", line)
		}
		if !r.anyErr && len(ops) > 0 && containsClose(ops) {
			o.Violate("C13", "sink failure never surfaced from Write/Flush/Close", "fault-not-surfaced", line)
		}
	}
	// ---- flush durability (C12) on every successful flush of the last sink
	for i, n := range r.flushOK {
		if n > len(out) {
			continue
		}
		got, _, _ := inflateAll(out[:n])
		if !bytes.Equal(got, data[:r.flushIn[i]]) {
			o.Violate("C12", fmt.Sprintf("after Flush #%d returned nil the %d sink bytes decode to %d bytes, %d were written before the flush", i, n, len(got), r.flushIn[i]), "flush-not-durable", line)
		}
	}
	if !r.closeOK || last.fails > 0 {
		return
	}
	o.Count("closed-ok")
	// ---- C05 round trip
	xr, err := xflate.NewReader(bytes.NewReader(out), nil)
	if err != nil {
		o.Violate("C05", "NewReader rejects the Writer's output: "+err.Error(), "rt-open", line)
	} else {
		got, err := io.ReadAll(xr)
		if err != nil || !bytes.Equal(got, data) {
			o.Violate("C05", fmt.Sprintf("ReadAll: err=%v, %d bytes, want %d", err, len(got), len(data)), "rt-read", line)
		}
		if end, err := xr.Seek(0, io.SeekEnd); err != nil || end != int64(len(data)) {
			o.Violate("C05", fmt.Sprintf("Seek(0,End)=%d,%v want %d", end, err, len(data)), "rt-end", line)
		}
	}
	// the Lean RFC 1951 specification and the Lean model of Reader.Reset see the same bytes
	if len(out) < 6000 {
		o.Emit(id+"f", "", "fl id="+id+"f in="+hx(out), fmt.Sprintf("%s:eof:%d", hx(data), len(out)), "")
		if xr != nil {
			var rs []string
			for _, rec := range xr.VerifRecords() {
				rs = append(rs, fmt.Sprintf("%d:%d:%d", rec.CompOffset, rec.RawOffset, rec.Type))
			}
			o.Emit(id+"o", "", "xo id="+id+"o stream="+hx(out), "ok:"+joinOr(rs, ";"), "")
		}
	}
	// ---- C06 plain DEFLATE, two decoders
	if got, unread, err := inflateAll(out); err != nil || unread != 0 || !bytes.Equal(got, data) {
		o.Violate("C06", fmt.Sprintf("compress/flate on the XFLATE stream: err=%v unread=%d out=%d want=%d", err, unread, len(got), len(data)), "deflate-std", line)
	}
	if got, unread, err := dsnetInflateAll(out); err != nil || unread != 0 || !bytes.Equal(got, data) {
		o.Violate("C06", fmt.Sprintf("dsnet flate.Reader on the XFLATE stream: err=%v unread=%d out=%d want=%d", err, unread, len(got), len(data)), "deflate-dsnet", line)
	}
	// ---- C05 split independence: same data, same flush positions, different write splits
	if len(r.sinks) == 1 && len(data) > 1 {
		h := fnv.New64a()
		h.Write([]byte(line))
		rr := NewRand(h.Sum64())
		var ops2 []string
		for _, op := range ops {
			if strings.HasPrefix(op, "W:") {
				d := unhx(op[2:])
				for len(d) > 0 {
					k := 1 + rr.Intn(len(d))
					ops2 = append(ops2, "W:"+hx(d[:k]))
					d = d[k:]
				}
				if rr.Intn(3) == 0 {
					ops2 = append(ops2, "W:-")
				}
			} else {
				ops2 = append(ops2, op)
			}
		}
		// the exported InputOffset/OutputOffset fields may be set by the caller at any time:
		// resetting them after every call must not change what is written or what a flush makes durable
		kvz := map[string]string{}
		for k, v := range kv {
			kvz[k] = v
		}
		kvz["zero"] = "1"
		rz := runXW(kvz, ops, &Out{Stats: map[string]int{}, distinct: map[string]bool{}}, line)
		if !rz.closeOK || !bytes.Equal(rz.sinks[0].got, out) {
			o.Violate("C06", "emitted bytes change when the caller resets the exported offset statistics between calls", "stats-dependent", line)
		}
		for i, n := range rz.flushOK {
			if n <= len(rz.sinks[0].got) {
				if got, _, _ := inflateAll(rz.sinks[0].got[:n]); !bytes.Equal(got, data[:min(rz.flushIn[i], len(data))]) {
					o.Violate("C12", fmt.Sprintf("with the statistics reset between calls, after Flush #%d returned nil the sink bytes decode to %d bytes, %d were written before the flush", i, len(got), rz.flushIn[i]), "flush-not-durable-stats", line)
					break
				}
			}
		}
		r2 := runXW(kv, ops2, &Out{Stats: map[string]int{}, distinct: map[string]bool{}}, line)
		if !r2.closeOK || !bytes.Equal(r2.sinks[0].got, out) {
			o.Violate("C05", "emitted bytes depend on how the writes were split", "split-dependent", line)
		}
	}
	// ---- C12 cuts
	cuts := cutPositions(len(out), line)
	if kv["allcuts"] != "1" && o.tier != "thorough" {
		h := fnv.New64a()
		h.Write([]byte(line))
		if h.Sum64()%6 != 0 {
			cuts = nil
		}
	}
	o.Stats["cuts-tried"] += len(cuts)
	for _, k := range cuts {
		cut := out[:k]
		got, _, err := inflateAll(cut)
		if err == nil {
			o.Violate("C12", fmt.Sprintf("DEFLATE decoder reports success on the stream cut at %d of %d", k, len(out)), "cut-deflate-success", line)
		} else if !bytes.HasPrefix(data, got) {
			o.Violate("C12", fmt.Sprintf("DEFLATE decoder on the stream cut at %d delivers bytes that are not a prefix of the original", k), "cut-deflate-wrong", line)
		}
		xr, err := xflate.NewReader(bytes.NewReader(cut), nil)
		if err != nil {
			continue
		}
		o.Count("cut-opened")
		got, err = io.ReadAll(xr)
		if err == nil && !bytes.Equal(got, data) {
			o.Violate("C12", fmt.Sprintf("xflate.Reader on the stream cut at %d succeeds with different content", k), "cut-xflate-success", line)
		} else if !bytes.HasPrefix(data, got) {
			// D6 shape: the wrong tail is (a prefix of) the five end-block bytes that
			// chunkReader appends, released before the chunk could be verified, and
			// the read then fails
			p := 0
			for p < len(got) && p < len(data) && got[p] == data[p] {
				p++
			}
			sig := "cut-xflate-wrong-bytes"
			if err != nil && len(got)-p <= len(xfEndBlock) && bytes.HasPrefix(xfEndBlock, got[p:]) {
				sig = "cut-xflate-endblock-bytes-then-error"
			}
			o.Violate("C12", fmt.Sprintf("xflate.Reader on the stream cut at %d (of %d) delivers %d bytes that are not a prefix of the original before failing with %v", k, len(out), len(got), err), sig, line)
		}
	}
}

func containsClose(ops []string) bool {
	for _, op := range ops {
		if op == "C" {
			return true
		}
	}
	return false
}

// cutPositions: every position for short outputs, else a boundary-biased sample.
func cutPositions(n int, line string) []int {
	var c []int
	if n <= 600 {
		for k := 0; k < n; k++ {
			c = append(c, k)
		}
		return c
	}
	h := fnv.New64a()
	h.Write([]byte(line))
	r := NewRand(h.Sum64())
	for i := 0; i < 200; i++ {
		c = append(c, r.Intn(n))
	}
	for k := n - 80; k < n; k++ {
		c = append(c, k)
	}
	return c
}

func fmtXwLine(cfg xwCfg, sink string, ops []xwOp, tail []string) string {
	var os []string
	for _, op := range ops {
		if op.kind == 'W' {
			os = append(os, "W:"+hx(op.data))
		} else {
			os = append(os, fmt.Sprintf("F:%d", op.mode))
		}
	}
	os = append(os, tail...)
	conf := 1
	if cfg.nilConfig {
		conf = 0
	}
	return fmt.Sprintf("xw conf=%d level=%d chunk=%d index=%d sink=%s ops=%s", conf, cfg.level, cfg.chunk, cfg.index, sink, joinOr(os, "|"))
}

func genXW(r *Rand, tier string, emit func(string)) {
	thorough := tier == "thorough"
	// exhaustive short op sequences over a boundary alphabet, small chunk sizes
	depth := 4
	if thorough {
		depth = 5
	}
	cfgs := []xwCfg{{level: 6, chunk: 4, index: 2}, {level: -1, chunk: 3, index: 1}, {level: 0, chunk: 4, index: -1}, {level: 9, chunk: 5, index: 3}}
	for _, cfg := range cfgs {
		c := int(cfg.chunk)
		mk := func(n int) string { return "W:" + hx(r.Bytes(n)) }
		var rec func(prefix []string, k int)
		rec = func(prefix []string, k int) {
			if k == 0 {
				conf := fmt.Sprintf("xw conf=1 level=%d chunk=%d index=%d sink=-", cfg.level, cfg.chunk, cfg.index)
				emit(conf + " ops=" + joinOr(append(append([]string{}, prefix...), "C"), "|"))
				return
			}
			for _, a := range []string{mk(0), mk(1), mk(c - 1), mk(c), mk(c + 1), "F:0", "F:1", "F:2"} {
				rec(append(prefix, a), k-1)
			}
		}
		rec(nil, depth)
	}
	// configurations incl. invalid and nil
	for _, lv := range []int{-3, -2, -1, 0, 1, 5, 9, 10, 100} {
		for _, ch := range []int64{-5, -1, 0, 1, 2, 100} {
			for _, ix := range []int64{-7, -1, 0, 1, 2, 3} {
				emit(fmtXwLine(xwCfg{level: lv, chunk: ch, index: ix}, "-", []xwOp{{kind: 'W', data: r.Bytes(10)}, {kind: 'F', mode: 1}, {kind: 'W', data: r.Bytes(7)}}, []string{"C"}))
			}
		}
	}
	emit(fmtXwLine(xwCfg{nilConfig: true}, "-", []xwOp{{kind: 'W', data: r.Bytes(3000)}}, []string{"C"}))
	// random schedules
	n := 600
	if thorough {
		n = 8000
	}
	for i := 0; i < n; i++ {
		cfg := randXwCfg(r)
		ops := randXwOps(r, 12, 600)
		tail := []string{"C"}
		switch r.Intn(10) {
		case 0:
			tail = []string{"C", "C", "W:" + hx(r.Bytes(5)), "F:1", "C"}
		case 1:
			tail = []string{"F:7", "C"}
		case 2:
			tail = []string{"C", "Z:-", "W:" + hx(r.Bytes(50)), "C"}
		case 3:
			tail = []string{"Z:-", "W:" + hx(r.Bytes(20)), "F:2", "C"}
		}
		emit(fmtXwLine(cfg, "-", ops, tail))
	}
	// D6: a stored stream whose plaintext embeds a forged index and footer describing the
	// stream's own first 55 bytes (stored-block header + 50 bytes) as one chunk; every cut is tried
	{
		pre := r.Bytes(50)
		idx := metaStream(buildIndex(0, []idxRec{{55, 50}}, 1, 55, 50, false, 0), 1)
		forged := append(append([]byte{}, idx...), buildFooter(uint64(len(idx)))...)
		d := append(append(append([]byte{}, pre...), forged...), r.Bytes(30)...)
		emit(fmtXwLine(xwCfg{level: -1, chunk: 0, index: 0}, "-", []xwOp{{kind: 'W', data: d}}, []string{"C"}) + " allcuts=1")
	}
	// a stored stream A | FlushFull | T | FlushSync where T is the index and footer of the honest
	// stream "A, FlushFull, FlushFull, Close": cut before the last sync marker, the stream ends in a
	// look-alike footer whose index maps the 5-byte stored-block header of T as an empty chunk
	for _, n := range []int{1, 40, 300} {
		a := r.Bytes(n)
		cfg := xwCfg{level: -1, chunk: 0, index: 0}
		honest, _, err := buildXflate(cfg, []xwOp{{kind: 'W', data: a}, {kind: 'F', mode: 1}, {kind: 'F', mode: 1}})
		c0 := 5 + n + 5 // stored block and the sync marker of FlushFull
		if err == nil && len(honest) > c0+5 {
			t := honest[c0+5:]
			emit(fmtXwLine(cfg, "-", []xwOp{{kind: 'W', data: a}, {kind: 'F', mode: 1}, {kind: 'W', data: t}, {kind: 'F', mode: 0}}, []string{"C"}) + " allcuts=1")
		}
	}
	// plaintexts that embed XFLATE structure, stored (xflate.NoCompression = -1): C12/D6 territory
	for i := 0; i < 20; i++ {
		inner, _, err := buildXflate(randXwCfg(r), randXwOps(r, 4, 40))
		if err != nil {
			continue
		}
		d := append(r.Bytes(r.Intn(60)), inner...)
		emit(fmtXwLine(xwCfg{level: -1, chunk: int64(r.Pick([]int{0, 50, 1000})), index: 0}, "-", []xwOp{{kind: 'W', data: d}, {kind: 'W', data: r.Bytes(r.Intn(30))}}, []string{"C"}) + " allcuts=1")
	}
	// chunks whose compressed size is just past a multiple of the reader's 4096-byte reads
	for c := int64(4085); c <= 4091; c++ {
		emit(fmtXwLine(xwCfg{level: []int{0, 1, 6}[c%3], chunk: c, index: 0}, "-", []xwOp{{kind: 'W', data: r.Bytes(int(c) + 300)}}, []string{"C"}))
	}
	// two equal, large, incompressible writes with FlushFull between and FlushSync after: the
	// compressor has emitted output on its own before the sync flush
	for _, n := range []int{70000, 200000} {
		d := r.Bytes(n)
		emit(fmtXwLine(xwCfg{level: 6, chunk: 1 << 22, index: 0}, "-", []xwOp{{kind: 'W', data: d}, {kind: 'F', mode: 1}, {kind: 'W', data: r.Bytes(n)}, {kind: 'F', mode: 0}, {kind: 'W', data: r.Bytes(10)}}, []string{"C"}))
	}
	// sink faults at every position of short outputs
	nf := 25
	if thorough {
		nf = 300
	}
	for i := 0; i < nf; i++ {
		cfg := randXwCfg(r)
		ops := randXwOps(r, 6, 120)
		s, _, err := buildXflateOps(cfg, ops)
		if err != nil {
			continue
		}
		total := len(s)
		pos := map[int]bool{0: true, 1: true, total - 1: true, total: true, 511: true, 512: true, 513: true}
		if total <= 200 || thorough {
			for k := 0; k < total && k < 1500; k++ {
				pos[k] = true
			}
		} else {
			for k := 0; k < 40; k++ {
				pos[r.Intn(total)] = true
			}
		}
		for k := range pos {
			if k < 0 || k > total {
				continue
			}
			mode := []string{"hard", "short"}[r.Intn(2)]
			fv := r.Intn(2)
			tail := []string{"C", "C"}
			if r.Intn(3) == 0 {
				tail = []string{"F:0", "W:" + hx(r.Bytes(9)), "C", "F:2", "C"}
			}
			tag := 3 + r.Intn(5)
			if r.Intn(5) == 0 {
				tag = 100 // a Closed-coded error, which xflate also uses as its own closed marker
			}
			emit(fmtXwLine(cfg, fmt.Sprintf("%d:%s:%d:%d", k, mode, fv, tag), ops, tail))
		}
	}
}

func buildXflateOps(cfg xwCfg, ops []xwOp) ([]byte, []byte, error) { return buildXflate(cfg, ops) }

func init() {
	register(&Family{
		Name: "xw",
		Rule: "xflate.Writer op sequences over a logging, optionally failing sink: all sequences of a fixed depth over {W0,W1,W(chunk-1),W(chunk),W(chunk+1),FlushSync,FlushFull,FlushIndex}+Close for four small configurations; a grid of valid/invalid configurations; random configurations and schedules with lifecycle tails (double Close, calls after Close, Reset); stored-mode plaintexts embedding XFLATE structure; sink faults (hard/short, once/forever) at every byte position of short outputs. Oracles: round trip, plain DEFLATE (2 decoders), split independence, flush durability, every cut position, counters, fault surfacing. Non-trivial = at least 2 ops; distinct by whole scenario",
		Gen:  genXW,
		Exec: execXW,
	})
}
