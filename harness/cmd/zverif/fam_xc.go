package main

// Family "xc" (C17): which parts of the compressed stream xflate.Reader touches.
// The underlying ReadSeeker logs every absolute Seek and counts the bytes read
// after it; per operation the logged seek targets are compared with the segments
// the Lean cost model (`seekC`/`readC`) says are opened, and the oracle checks
// ownership (half-open) and the per-segment fetch bound on the real code.

import (
	"bytes"
	"fmt"
	"io"
	"strconv"
	"strings"
	"time"

	"github.com/dsnet/compress/xflate"
)

type logRS struct {
	rs    *bytes.Reader
	seeks []int64 // targets of SeekStart calls since the last take()
	reads []int64 // bytes read after each of them (reads[0]: before the first)
	total int64
}

func (c *logRS) Read(b []byte) (int, error) {
	n, err := c.rs.Read(b)
	c.reads[len(c.reads)-1] += int64(n)
	c.total += int64(n)
	return n, err
}
func (c *logRS) Seek(o int64, w int) (int64, error) {
	p, err := c.rs.Seek(o, w)
	if w == io.SeekStart {
		c.seeks = append(c.seeks, o)
		c.reads = append(c.reads, 0)
	}
	return p, err
}
func (c *logRS) take() (seeks, reads []int64) {
	seeks, reads = c.seeks, c.reads
	c.seeks, c.reads = nil, []int64{0}
	return
}

func execXC(o *Out, id, line string) {
	_, kv := parseLine(line)
	stream, plain := unhx(kv["stream"]), unhx(kv["plain"])
	ops := strings.Split(kv["ops"], "|")
	if kv["ops"] == "" || kv["ops"] == "-" {
		ops = nil
	}
	lrs := &logRS{rs: bytes.NewReader(stream), reads: []int64{0}}
	xr, err := xflate.NewReader(lrs, nil)
	if err != nil {
		o.Count("open-failed")
		return
	}
	recs := xr.VerifRecords()
	rstr, sstr := layoutStrings(stream, recs)
	n := len(recs)
	// segment j: raw [lo,hi], comp (clo,chi]
	seg := func(j int) (lo, hi, clo, chi int64, typ int) {
		if j > 0 {
			lo, clo = recs[j-1].RawOffset, recs[j-1].CompOffset
		}
		if j < n {
			return lo, recs[j].RawOffset, clo, recs[j].CompOffset, recs[j].Type
		}
		return lo, lo, clo, clo, 0
	}
	segOfComp := func(c int64) int {
		for j := 0; j <= n; j++ {
			if _, _, clo, _, _ := seg(j); clo == c {
				return j
			}
		}
		return -1
	}
	owns := func(j int, p int64) bool {
		lo, hi, _, _, _ := seg(j)
		return lo <= p && (p < hi || p == lo || j == n)
	}
	// --- open cost
	_, _ = lrs.take()
	var idxBytes int64
	for j := 0; j < n; j++ {
		if _, _, clo, chi, typ := seg(j); typ == 2 {
			idxBytes += chi - clo
		}
	}
	openRead := lrs.total
	o.Count("open")
	if openRead > 64+idxBytes {
		o.Violate("C17", fmt.Sprintf("opening read %d bytes; footer window 64 + index blocks %d", openRead, idxBytes), "open-cost", line)
	}
	end := int64(len(plain))
	var pos int64
	cur := segOfComp(0) // segment the reader sits on after the initial Seek(0)
	var curRead int64   // bytes fetched for it so far
	var implRes, scnOps []string
	check := func(op string, seeks, reads []int64, p0, p1 int64, isSeek bool) string {
		// reads[0] belongs to the segment that was current before the op
		curRead += reads[0]
		var names []string
		for i, c := range seeks {
			j := segOfComp(c)
			names = append(names, strconv.FormatInt(c, 10))
			if j < 0 {
				o.Violate("C17", fmt.Sprintf("%s: underlying Seek to %d, which is not the start of a segment", op, c), "seek-not-segment", line)
				continue
			}
			lo, _, _, _, _ := seg(j)
			if isSeek {
				if len(seeks) > 1 || !owns(j, p1) {
					o.Violate("C17", fmt.Sprintf("%s to %d opened segment %d raw [%d..) which does not hold the target", op, p1, j, lo), "seek-opens-non-owner", line)
				}
			} else if !(lo >= p0 && lo <= p1 || j == n) {
				o.Violate("C17", fmt.Sprintf("%s from %d delivering %d bytes opened segment %d starting at raw %d", op, p0, p1-p0, j, lo), "read-opens-outside", line)
			}
			cur, curRead = j, reads[i+1]
		}
		if _, _, clo, chi, _ := seg(cur); curRead > chi-clo {
			o.Violate("C17", fmt.Sprintf("%s: %d bytes fetched for segment %d whose compressed size is %d", op, curRead, cur, chi-clo), "fetch-exceeds-segment", line)
		}
		if len(names) == 0 {
			return "-"
		}
		return strings.Join(names, ",")
	}
	for _, op := range ops {
		f := strings.Split(op, ":")
		switch f[0] {
		case "S":
			off, _ := strconv.ParseInt(f[1], 10, 64)
			wh, _ := strconv.Atoi(f[2])
			var p int64
			var e error
			if !withWatchdog(5*time.Second, func() { p, e = xr.Seek(off, wh) }) {
				return
			}
			seeks, reads := lrs.take()
			if e == nil {
				implRes = append(implRes, "S:"+check(op, seeks, reads, pos, p, true))
				pos = p
				if len(seeks) == 0 {
					o.Count("seek-fast")
				} else {
					o.Count("seek-slow")
				}
			} else {
				implRes = append(implRes, "S:"+check(op, seeks, reads, pos, pos, true))
				o.Count("seek-rejected")
			}
			scnOps = append(scnOps, op)
		case "R":
			nb, _ := strconv.Atoi(f[1])
			buf := make([]byte, nb)
			var k int
			if !withWatchdog(5*time.Second, func() { k, _ = xr.Read(buf) }) {
				return
			}
			_, _, zrOut, _ := xr.VerifState()
			hintE := 0
			if k > 0 && zrOut == 0 {
				hintE = 1
			}
			seeks, reads := lrs.take()
			implRes = append(implRes, "R:"+check(op, seeks, reads, min(pos, end), min(pos, end)+int64(k), false))
			scnOps = append(scnOps, fmt.Sprintf("R:%d:%d:%d", nb, k, hintE))
			pos += int64(k)
			o.Count(fmt.Sprintf("read-opens-%d", min(len(seeks), 3)))
		case "C":
			return // lifecycle is C18's business
		}
	}
	key := ""
	if n >= 3 && len(ops) >= 2 {
		key = kv["stream"][:min(len(kv["stream"]), 64)] + "/" + kv["ops"]
	}
	scn := fmt.Sprintf("xc id=%s v=fixed recs=%s segs=%s ops=%s", id, rstr, sstr, joinOr(scnOps, "|"))
	o.Emit(id, line, scn, joinOr(implRes, "|"), key)
}

func genXC(r *Rand, tier string, emit func(string)) {
	nStreams, nRandom, maxLen := 12, 2500, 12
	if tier == "thorough" {
		nStreams, nRandom, maxLen = 60, 40000, 40
	}
	streams := append(genXrStreams(r, nStreams, 300), genXrStreams(r, nStreams, 3000)...)
	// the D7 shape: cursor on chunk i, Seek to the end of chunk i+1
	{
		data := r.Bytes(1000)
		s, p, _ := buildXflate(xwCfg{level: 0, chunk: 100, index: 0}, []xwOp{{kind: 'W', data: data}})
		for _, ops := range []string{"S:200:0|R:1", "S:50:0|S:200:0|R:10", "R:100|S:200:0|R:1", "S:950:0|S:1000:0|R:1", "S:300:0|R:100|R:100|R:1"} {
			emit(fmt.Sprintf("xc stream=%s plain=%s ops=%s", hx(s), hx(p), ops))
		}
		streams = append(streams, xrStream{s, p, nil})
	}
	for _, st := range streams {
		if st.bounds == nil {
			if xr, err := xflate.NewReader(bytes.NewReader(st.stream), nil); err == nil {
				for _, rec := range xr.VerifRecords() {
					st.bounds = append(st.bounds, rec.RawOffset)
				}
			}
		}
		// boundaries as seek targets from other boundaries' chunks: all pairs on small
		// indexes, neighbours (i, i+1, i+2) and a sample of far pairs on large ones
		nb := len(st.bounds)
		pair := func(i, j int) {
			emit(fmt.Sprintf("xc stream=%s plain=%s ops=S:%d:0|R:1|S:%d:0|R:%d|R:1", hx(st.stream), hx(st.plain), st.bounds[i], st.bounds[j], 1+r.Intn(40)))
		}
		if nb <= 6 {
			for i := 0; i < nb; i++ {
				for j := 0; j < nb; j++ {
					pair(i, j)
				}
			}
		} else {
			for k := 0; k < 12; k++ {
				i := r.Intn(nb)
				for _, d := range []int{0, 1, 2} {
					if i+d < nb {
						pair(i, i+d)
					}
				}
				pair(i, r.Intn(nb))
			}
		}
	}
	for i := 0; i < nRandom; i++ {
		st := streams[r.Intn(len(streams))]
		n := 1 + r.Intn(maxLen)
		var ops []string
		for j := 0; j < n; j++ {
			switch x := r.Intn(10); {
			case x < 3 && len(st.bounds) > 0:
				ops = append(ops, fmt.Sprintf("S:%d:0", st.bounds[r.Intn(len(st.bounds))]+int64(r.Intn(3))-1))
			case x < 5:
				ops = append(ops, fmt.Sprintf("S:%d:%d", int64(r.Intn(len(st.plain)+3))-1, 0))
			case x < 6:
				ops = append(ops, fmt.Sprintf("S:%d:%d", int64(r.Intn(40))-20, 1+r.Intn(2)))
			default:
				ops = append(ops, fmt.Sprintf("R:%d", r.Pick([]int{0, 1, 7, 100, 1000, len(st.plain) + 10})))
			}
		}
		emit(fmt.Sprintf("xc stream=%s plain=%s ops=%s", hx(st.stream), hx(st.plain), strings.Join(ops, "|")))
	}
}

func init() {
	register(&Family{
		Name: "xc",
		Rule: "xflate.Reader Seek/Read sequences on streams written by the real Writer (random configuration and flush schedule, 1..3000-byte writes): every record boundary as a seek target from every (third) other boundary's chunk, the D7 shape (target = end of the chunk after the cursor), then random sequences biased to boundaries +-1; the underlying ReadSeeker logs absolute seeks and bytes read. Non-trivial = stream with >= 3 records and >= 2 ops; distinct = distinct (stream prefix, op sequence)",
		Gen:  genXC,
		Exec: execXC,
	})
}
