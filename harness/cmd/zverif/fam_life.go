package main

// Family "life": lifecycle, failure contract and Reset of every Reader and
// Writer type, as call sequences (C09, C13, C14, C18). It is an oracle family:
// the property clauses are evaluated on the implementation's trace; the models
// of xflate.Writer/Reader are compared in families xw/xr.

import (
	"bufio"
	"reflect"
	"bytes"
	stdbz "compress/bzip2"
	stdflate "compress/flate"
	"fmt"
	"io"
	"strconv"
	"strings"

	"github.com/dsnet/compress/brotli"
	dbzip2 "github.com/dsnet/compress/bzip2"
	dflate "github.com/dsnet/compress/flate"
	cbrotli "github.com/dsnet/compress/internal/cgo/brotli"
	"github.com/dsnet/compress/xflate"
)

type anyReader interface {
	Read([]byte) (int, error)
	Close() error
}

type resetter interface{ Reset(io.Reader) error }

func newReaderOf(typ string, src io.Reader, data []byte) (anyReader, error) {
	switch typ {
	case "flate":
		return dflate.NewReader(src, nil)
	case "brotli":
		return brotli.NewReader(src, nil)
	case "bzip2":
		return dbzip2.NewReader(src, nil)
	case "meta":
		return xflate.VerifNewMetaReader(src), nil
	case "xflate":
		return xflate.NewReader(bytes.NewReader(data), nil)
	}
	panic(typ)
}

// inputOffsetOf reads the exported InputOffset field of any of the Reader types (0 if absent).
func inputOffsetOf(r anyReader) int64 {
	v := reflect.ValueOf(r)
	if v.Kind() == reflect.Ptr {
		v = v.Elem()
	}
	if v.Kind() != reflect.Struct {
		return 0
	}
	f := v.FieldByName("InputOffset")
	if !f.IsValid() || !f.CanInt() {
		return 0
	}
	return f.Int()
}

// metaReaderCounters reads InputOffset, OutputOffset, NumBlocks and FinalMode of a meta.Reader.
func metaReaderCounters(r anyReader) (in, out, nb, fm int64) {
	v := reflect.ValueOf(r)
	if v.Kind() == reflect.Ptr {
		v = v.Elem()
	}
	if v.Kind() != reflect.Struct {
		return
	}
	g := func(n string) int64 {
		f := v.FieldByName(n)
		if !f.IsValid() || !f.CanInt() {
			return -1
		}
		return f.Int()
	}
	return g("InputOffset"), g("OutputOffset"), g("NumBlocks"), g("FinalMode")
}

func resetReader(typ string, r anyReader, src io.Reader, data []byte) error {
	switch x := r.(type) {
	case *xflate.Reader:
		return x.Reset(bytes.NewReader(data))
	case resetter:
		return x.Reset(src)
	default:
		// meta.Reader.Reset has no result
		type metaResetter interface{ Reset(io.Reader) }
		r.(metaResetter).Reset(src)
		return nil
	}
}

// encodeFor produces a valid stream of the type for the plaintext.
func encodeFor(typ string, plain []byte, r *Rand) []byte {
	var bb bytes.Buffer
	switch typ {
	case "flate":
		return deflateOf(plain, r.Pick([]int{-2, 0, 1, 6, 9}))
	case "brotli":
		zw := cbrotli.NewWriter(&bb, r.Intn(12))
		zw.Write(plain)
		zw.Close()
	case "bzip2":
		zw, _ := dbzip2.NewWriter(&bb, &dbzip2.WriterConfig{Level: 1 + r.Intn(9)})
		zw.Write(plain)
		zw.Close()
	case "meta":
		return metaStream(plain, 1+r.Intn(2))
	case "xflate":
		s, _, _ := buildXflate(xwCfg{level: 6, chunk: int64(r.Pick([]int{3, 50, 1000})), index: int64(r.Pick([]int{-1, 2}))}, []xwOp{{kind: 'W', data: plain}})
		return s
	}
	return bb.Bytes()
}

func deflateOf(plain []byte, lvl int) []byte {
	var bb bytes.Buffer
	zw, _ := stdFlateWriter(&bb, lvl)
	zw.Write(plain)
	zw.Close()
	return bb.Bytes()
}

var readerTypes = []string{"flate", "brotli", "bzip2", "meta", "xflate"}

// allowedClass: the classes a Reader may end with.
func allowedClass(c string) bool {
	return c == "eof" || c == "ueof" || c == "corrupt" || c == "deprecated"
}

// failSeeker is a ReadSeeker whose Read fails from the (okCalls+1)-th call on.
type failSeeker struct {
	rd      *bytes.Reader
	okCalls int
	tag     int
	failed  bool
}

func (f *failSeeker) Read(b []byte) (int, error) {
	if f.okCalls <= 0 {
		f.failed = true
		return 0, injected(f.tag)
	}
	f.okCalls--
	return f.rd.Read(b)
}
func (f *failSeeker) Seek(off int64, wh int) (int64, error) { return f.rd.Seek(off, wh) }

// fragSeeker delivers at most frags[i] bytes on its i-th Read (cyclically); with eofWith it returns
// io.EOF together with the last bytes.
type fragSeeker struct {
	rd      *bytes.Reader
	frags   []int
	i       int
	eofWith bool
}

func (f *fragSeeker) Read(p []byte) (int, error) {
	k := f.frags[f.i%len(f.frags)]
	f.i++
	if k < len(p) {
		p = p[:k]
	}
	n, err := f.rd.Read(p)
	if err == nil && f.eofWith && f.rd.Len() == 0 {
		err = io.EOF
	}
	return n, err
}
func (f *fragSeeker) Seek(off int64, wh int) (int64, error) { return f.rd.Seek(off, wh) }

func execLife(o *Out, id, line string) {
	kind, kv := parseLine(line)
	switch kind {
	case "lr": // reader lifecycle
		typ := kv["t"]
		streams := strings.Split(kv["streams"], ",") // hex streams; ops refer to them by index on Reset
		plains := strings.Split(kv["plains"], ",")
		fail := -1
		if kv["fail"] != "" && kv["fail"] != "-" {
			fail, _ = strconv.Atoi(kv["fail"])
		}
		srcKind := kv["src"]
		cur := 0
		data := unhx(streams[0])
		etag := 9
		if kv["etag"] != "" {
			etag, _ = strconv.Atoi(kv["etag"])
		}
		mk := func(d []byte) io.Reader { return mkSource(srcKind, d, fail, etag, nil, []int{3, 1, 5}) }
		var rd anyReader
		var err error
		curSrc := mk(data)
		_, p := catch(func() { rd, err = newReaderOf(typ, curSrc, data) })
		if p != nil {
			o.Violate("C18", fmt.Sprintf("%s NewReader panicked: %v", typ, p), "panic-new", line)
			return
		}
		if err != nil { // xflate.NewReader parses the index at construction
			o.Count("lr-open-failed")
			rd = nil
		}
		var trace []string
		var stickyErr error
		sticky := false
		closedOK := false
		var delivered []byte
		sawEOF := false
		closeCalled := false // a Close since creation / the last Reset
		// meta.Reader also goes to its API-level model (kind mrm): per call bytes, class, counters, FinalMode
		var res []string
		closedNil := false // a Close returned nil since creation / the last Reset
		tainted := false // the input ended or failed inside a block: InputOffset depends on the source kind
		peek := srcKind != "byte" && srcKind != "bytefailend" && srcKind != "byteeof"
		ctr := func() string {
			in, out, nb, fm := metaReaderCounters(rd)
			if peek && tainted {
				return fmt.Sprintf("~:%d:%d:%d", out, nb, fm)
			}
			return fmt.Sprintf("%d:%d:%d:%d", in, out, nb, fm)
		}
		taint := func(e error) {
			if e == io.ErrUnexpectedEOF || isInjected(e, etag) {
				tainted = true
			}
		}
		for _, op := range strings.Split(kv["ops"], "|") {
			f := strings.Split(op, ":")
			if rd == nil {
				break
			}
			switch f[0] {
			case "R":
				n, _ := strconv.Atoi(f[1])
				buf := make([]byte, n)
				var k int
				var e error
				ok := true
				_, p := catch(func() {
					ok = withWatchdog(timeSec(20), func() { k, e = rd.Read(buf) })
				})
				if p != nil {
					o.Violate("C18", fmt.Sprintf("%s.Read panicked: %v", typ, p), "panic-read", line)
					return
				}
				if !ok {
					o.Violate("C08", typ+".Read did not return within 20s", "life-read-hang", line)
					return
				}
				trace = append(trace, fmt.Sprintf("R%d=%d,%s", n, k, errClass(e)))
				if typ == "meta" {
					if !closedNil {
						taint(e)
					}
					res = append(res, fmt.Sprintf("R:%s:%s:%s", hx(buf[:max(k, 0)]), errClass(e), ctr()))
				}
				delivered = append(delivered, buf[:k]...)
				if sticky && !closeCalled {
					if k != 0 || e != stickyErr {
						o.Violate("C09", fmt.Sprintf("%s: after Read returned %v a later Read returned (%d, %v)", typ, stickyErr, k, e), "not-sticky", line)
					}
				}
				if closedOK && (k != 0 || e == nil) {
					o.Violate("C18", fmt.Sprintf("%s: Read after Close(nil) returned (%d, %v)", typ, k, e), "read-after-close", line)
				}
				if e != nil && !sticky && !closedOK && !closeCalled {
					sticky, stickyErr = true, e
					c := errClass(e)
					if ie, isInj := e.(*injErr); isInj {
						if ie.tag != etag {
							o.Violate("C09", "injected error came back with another identity", "verbatim", line)
						}
					} else if etag >= 100 && e == injected(etag) {
						// the source's own error, unchanged
					} else if strings.HasPrefix(c, "other") || !allowedClass(c) {
						o.Violate("C09", fmt.Sprintf("%s.Read failed with class %s (%v)", typ, c, e), "class", line)
					}
					if e == io.ErrUnexpectedEOF && fail >= 0 && fail < len(unhx(streams[0])) && cur == 0 {
						// the source never reported the end of the input (it fails, forever, from byte
						// `fail` on): "unexpected EOF" can only be a rewritten I/O error
						o.Violate("C09", fmt.Sprintf("%s reports io.ErrUnexpectedEOF although the source (%s) failed with an I/O error at byte %d and never reported EOF", typ, srcKind, fail), "io-error-as-ueof", line)
					}
					if e == io.EOF {
						sawEOF = true
						// bzip2.Reader looks for a following stream: a source that fails at (or before)
						// the end of the input cannot have told it that the input was over
						if typ == "bzip2" && strings.HasSuffix(srcKind, "failend") && cur == 0 {
							o.Violate("C09", "bzip2.Reader reports io.EOF although the source answered its look for a following stream with an I/O error", "io-error-swallowed", line)
						}
					}
				}
			case "C":
				var e error
				_, p := catch(func() { e = rd.Close() })
				if p != nil {
					o.Violate("C18", fmt.Sprintf("%s.Close panicked: %v", typ, p), "panic-close", line)
					return
				}
				trace = append(trace, "C="+errClass(e))
				if typ == "meta" {
					closedNil = closedNil || e == nil
					res = append(res, fmt.Sprintf("C:%s:%s", errClass(e), ctr()))
				}
				closeCalledBefore := closeCalled
				closeCalled = true
				if closedOK && e != nil {
					o.Violate("C18", typ+": Close after a successful Close returned "+e.Error(), "close-idempotent", line)
				}
				if sticky && !closedOK && !closeCalledBefore {
					if (e == nil) != (stickyErr == io.EOF) {
						o.Violate("C09", fmt.Sprintf("%s: Close returned %v after Read had returned %v", typ, e, stickyErr), "close-result", line)
					}
				}
				if e == nil && (sawEOF || !sticky) {
					if sawEOF {
						closedOK = true
					}
				}
			case "Z":
				cur, _ = strconv.Atoi(f[1])
				data = unhx(streams[cur])
				var e error
				curSrc = mk(data)
				_, p := catch(func() { e = resetReader(typ, rd, curSrc, data) })
				if p != nil {
					o.Violate("C18", fmt.Sprintf("%s.Reset panicked: %v", typ, p), "panic-reset", line)
					return
				}
				trace = append(trace, "Z="+errClass(e))
				if typ == "meta" {
					tainted, closedNil = false, false
					res = append(res, "Z:"+ctr())
				}
				sticky, closedOK, sawEOF, delivered, closeCalled = false, false, false, nil, false
				if e != nil {
					rd = nil
				}
			case "Y", "X":
				// Y:i:k - Reset onto a NEW source of the same kind that stands at a non-zero offset q
				//         (q junk bytes already consumed), q near the old reader's InputOffset or small:
				//         look-ahead state kept for the previous source must not be served for this one
				// X:i   - the SAME source object, re-targeted by its own Reset(newData), is handed to Reset
				cur, _ = strconv.Atoi(f[1])
				data = unhx(streams[cur])
				ns := mk(data)
				if f[0] == "Y" && typ != "xflate" {
					k, _ := strconv.Atoi(f[2])
					c := inputOffsetOf(rd)
					qs := []int64{c, c + 1, c + 5, 0, 7, 64, 200, c + 100}
					q := qs[k%len(qs)]
					full := make([]byte, q, int(q)+len(data))
					for i := range full {
						full[i] = byte(0xa5 + 13*i)
					}
					full = append(full, data...)
					switch srcKind {
					case "bytes":
						br := bytes.NewReader(full)
						br.Seek(q, io.SeekStart)
						ns = br
					case "strings":
						sr := strings.NewReader(string(full))
						sr.Seek(q, io.SeekStart)
						ns = sr
					case "bufio16", "bufio4096":
						b := bufio.NewReaderSize(bytes.NewReader(full), map[string]int{"bufio16": 16, "bufio4096": 4096}[srcKind])
						b.Discard(int(q))
						ns = b
					case "buffer":
						bb := bytes.NewBuffer(full)
						bb.Next(int(q))
						ns = bb
					}
				}
				if f[0] == "X" {
					switch x := curSrc.(type) {
					case *bytes.Reader:
						x.Reset(data)
						ns = x
					case *strings.Reader:
						x.Reset(string(data))
						ns = x
					case *bytes.Buffer:
						x.Reset()
						x.Write(data)
						ns = x
					}
				}
				curSrc = ns
				var e error
				_, p := catch(func() { e = resetReader(typ, rd, curSrc, data) })
				if p != nil {
					o.Violate("C18", fmt.Sprintf("%s.Reset panicked: %v", typ, p), "panic-reset", line)
					return
				}
				trace = append(trace, f[0]+"="+errClass(e))
				if typ == "meta" {
					tainted, closedNil = false, false
					res = append(res, f[0]+":"+ctr())
				}
				sticky, closedOK, sawEOF, delivered, closeCalled = false, false, false, nil, false
				if e != nil {
					rd = nil
				}
			case "A": // read everything: after a Reset this must equal a fresh reader's result (C14)
				var got []byte
				var e error
				_, p := catch(func() { got, e = io.ReadAll(rd) })
				if p != nil {
					o.Violate("C18", fmt.Sprintf("%s ReadAll panicked: %v", typ, p), "panic-readall", line)
					return
				}
				trace = append(trace, fmt.Sprintf("A=%d,%s", len(got), errClass(e)))
				if typ == "meta" {
					if !closedNil {
						taint(e)
					}
					res = append(res, fmt.Sprintf("A:%s:%s:%s", hx(got), errClass(e), ctr()))
				}
				if !sticky && !closedOK && !closeCalled && fail < 0 {
					fr, _ := newReaderOf(typ, mk(data), data)
					var want []byte
					var we error
					if fr != nil {
						want, we = io.ReadAll(fr)
					}
					full := append(append([]byte{}, delivered...), got...)
					if !bytes.Equal(full, want) || errClass(e) != errClass(we) {
						o.Violate("C14", fmt.Sprintf("%s: reused object delivers %d bytes (%v), a fresh one %d bytes (%v)", typ, len(full), e, len(want), we), "reset-differs", line)
					}
					if cur < len(plains) && plains[cur] != "?" && we == nil && !bytes.Equal(want, unhx(plains[cur])) {
						o.Violate("C05", typ+": fresh reader does not return the plaintext", "fresh-plain", line)
					}
				}
				sticky, stickyErr = true, e
				if e == nil {
					stickyErr = io.EOF
					sawEOF = true
				}
			}
		}
		o.Count("lr-" + typ)
		if typ == "meta" && rd != nil {
			failStr := "-"
			switch srcKind {
			case "failend", "bytefailend":
				failStr = "end"
			case "adv", "byte", "bufio16", "bufio17", "bufio4096", "readonly", "onebyte", "eofwith":
				if fail >= 0 {
					failStr = strconv.Itoa(fail)
				}
			}
			io := "byte"
			if peek {
				io = "peek"
			}
			o.Count("lr-model-meta")
			o.Emit(id, line, fmt.Sprintf("mrm id=%s io=%s streams=%s fail=%s etag=%d ops=%s", id, io, kv["streams"], failStr, etag, kv["ops"]),
				strings.Join(res, "|"), typ+kv["ops"]+kv["streams"][:min(len(kv["streams"]), 40)]+kv["fail"]+srcKind)
			return
		}
		// flate.Reader and bzip2.Reader also go to their API-level models (kind lrm, see fam_lrm.go)
		scn, lres := "", strings.Join(trace, "|")
		if kv["model"] != "0" {
			if m, mres, ok := lrModel(o, id, line, typ, srcKind, streams, fail, etag, kv["ops"]); ok {
				scn, lres = m, mres
			}
		}
		o.Emit(id, line, scn, lres, typ+kv["ops"]+kv["streams"][:min(len(kv["streams"]), 40)]+kv["fail"])
	case "lxf": // xflate.Reader over a ReadSeeker that fragments its data (C10): same result as over bytes.Reader
		data := unhx(kv["stream"])
		var frags []int
		for _, f := range strings.Split(kv["frags"], ",") {
			n, _ := strconv.Atoi(f)
			frags = append(frags, n)
		}
		run := func(src io.ReadSeeker, bufLen int) (out []byte, openErr, readErr error, pnc interface{}) {
			_, pnc = catch(func() {
				var xr *xflate.Reader
				xr, openErr = xflate.NewReader(src, nil)
				if openErr != nil {
					return
				}
				buf := make([]byte, bufLen)
				for i := 0; i < 1<<22; i++ {
					n, e := xr.Read(buf)
					out = append(out, buf[:n]...)
					if e != nil {
						readErr = e
						return
					}
				}
				readErr = fmt.Errorf("no progress")
			})
			return
		}
		wOut, wOpen, wRead, _ := run(bytes.NewReader(data), 4096)
		bufLen, _ := strconv.Atoi(kv["buf"])
		gOut, gOpen, gRead, pnc := run(&fragSeeker{rd: bytes.NewReader(data), frags: frags, eofWith: kv["eofwith"] == "1"}, bufLen)
		if pnc != nil {
			o.Violate("C08", fmt.Sprintf("xflate.Reader over a fragmenting source panicked: %v", pnc), "lxf-panic", line)
			return
		}
		res := fmt.Sprintf("open=%s read=%s n=%d", errClass(gOpen), errClass(gRead), len(gOut))
		if errClass(gOpen) != errClass(wOpen) || errClass(gRead) != errClass(wRead) || !bytes.Equal(gOut, wOut) {
			o.Violate("C10", fmt.Sprintf("xflate.Reader over a source delivering %v bytes per Read (eofWith=%s, Read buffer %d): %s; over bytes.Reader: open=%s read=%s n=%d",
				frags, kv["eofwith"], bufLen, res, errClass(wOpen), errClass(wRead), len(wOut)), "xflate-source-shape", line)
		}
		if want, ok := kv["plain"]; ok && wRead == io.EOF && !bytes.Equal(wOut, unhx(want)) {
			o.Violate("C05", "xflate.Reader does not return the plaintext", "lxf-plain", line)
		}
		o.Count("lxf")
		o.Emit(id, line, "", res, "lxf"+kv["frags"]+kv["eofwith"]+kv["buf"]+kv["stream"][:min(len(kv["stream"]), 32)])
	case "lxs": // xflate.Reader over a ReadSeeker whose Read starts failing after a number of calls
		data := unhx(kv["stream"])
		okCalls, _ := strconv.Atoi(kv["okcalls"])
		etag, _ := strconv.Atoi(kv["etag"])
		src := &failSeeker{rd: bytes.NewReader(data), okCalls: okCalls, tag: etag}
		var xr *xflate.Reader
		var err error
		if _, p := catch(func() { xr, err = xflate.NewReader(src, nil) }); p != nil {
			o.Violate("C18", fmt.Sprintf("xflate NewReader panicked: %v", p), "panic-new", line)
			return
		}
		if err != nil {
			if src.failed && !isInjected(err, etag) {
				o.Violate("C09", fmt.Sprintf("xflate.NewReader turned the source's error into %v", err), "verbatim", line)
			}
			o.Count("lxs-open-failed")
			o.Emit(id, line, "", "open="+errClass(err), "lxs-open"+kv["okcalls"]+kv["etag"])
			return
		}
		buf := make([]byte, 37)
		var e error
		if kv["seek"] != "" {
			// Seek to an offset (usually strictly inside a chunk) and let the source fail on its
			// (after+1)-th Read from there on: a failure while the Reader skips forward to the target
			// must come back verbatim like any other
			off, _ := strconv.ParseInt(kv["seek"], 10, 64)
			after, _ := strconv.Atoi(kv["after"])
			if _, se := xr.Seek(off, io.SeekStart); se != nil {
				o.Emit(id, line, "", "seek="+errClass(se), "lxs-seek"+kv["seek"])
				return
			}
			src.okCalls = after
		}
		for i := 0; i < 100000 && e == nil; i++ {
			_, e = xr.Read(buf)
		}
		n2, e2 := xr.Read(buf)
		c1 := xr.Close()
		c2 := xr.Close()
		if e != io.EOF {
			if src.failed && !isInjected(e, etag) {
				o.Violate("C09", fmt.Sprintf("xflate.Reader turned the source's error into %v", e), "verbatim", line)
			}
			if n2 != 0 || e2 != e {
				o.Violate("C09", fmt.Sprintf("xflate: after Read returned %v a later Read returned (%d, %v)", e, n2, e2), "not-sticky", line)
			}
			if c1 == nil || c2 == nil {
				o.Violate("C09", fmt.Sprintf("xflate: Close returned %v then %v after Read had returned %v", c1, c2, e), "close-result", line)
			}
		} else if c1 != nil || c2 != nil {
			o.Violate("C09", fmt.Sprintf("xflate: Close returned %v then %v after io.EOF", c1, c2), "close-result", line)
		}
		o.Count("lxs")
		o.Emit(id, line, "", fmt.Sprintf("R=%s|C=%s|C=%s", errClass(e), errClass(c1), errClass(c2)), "lxs"+kv["okcalls"]+kv["etag"]+errClass(e))
	case "trunc": // every proper prefix of a valid stream fails with exactly io.ErrUnexpectedEOF
		typ := kv["t"]
		data := unhx(kv["stream"])
		plain := unhx(kv["plain"])
		srcKinds := []string{kv["src"]}
		if kv["src"] == "all" {
			srcKinds = append([]string{"byte", "byteeof"}, realKinds...)
		}
		for kk := 0; kk < len(data)*len(srcKinds); kk++ {
			k, src := kk/len(srcKinds), srcKinds[kk%len(srcKinds)]
			if len(data) > 400 && k%7 != 0 && k > 40 && k < len(data)-40 {
				continue
			}
			rd, _ := newReaderOf(typ, mkSource(src, data[:k], -1, 9, nil, []int{2, 9}), data[:k])
			if rd == nil {
				continue
			}
			var got []byte
			var e error
			_, p := catch(func() { got, e = io.ReadAll(rd) })
			if p != nil {
				o.Violate("C08", fmt.Sprintf("%s panicked on a truncated stream: %v", typ, p), "panic-trunc", line)
				return
			}
			if e != io.ErrUnexpectedEOF {
				o.Violate("C09", fmt.Sprintf("%s stream cut at %d of %d read through source %s ends with %v, not io.ErrUnexpectedEOF", typ, k, len(data), src, e), "trunc-class", line)
				break
			}
			if !bytes.HasPrefix(plain, got) {
				o.Violate("C12", fmt.Sprintf("%s stream cut at %d delivers bytes that are not a prefix of the original", typ, k), "trunc-prefix", line)
				break
			}
		}
		o.Count("trunc-" + typ)
		o.Emit(id, line, "", "done", typ+kv["stream"][:min(len(kv["stream"]), 60)])
	case "lw": // bzip2.Writer / meta.Writer lifecycle with sink faults
		typ := kv["t"]
		sinks := []*faultSink{parseSinkSpec(kv["sink"])}
		var wr interface {
			Write([]byte) (int, error)
			Close() error
		}
		var bz *dbzip2.Writer
		mwv := xflate.VerifNewMetaWriter(nil)
		lvl, _ := strconv.Atoi(kv["level"])
		final := 1 + lvl%2
		mkW := func(s *faultSink) error {
			if typ == "bzip2" {
				var e error
				bz, e = dbzip2.NewWriter(s, &dbzip2.WriterConfig{Level: lvl})
				wr = bz
				return e
			}
			mwv = xflate.VerifNewMetaWriter(s)
			xflate.VerifSetFinalMode(mwv, final)
			wr = mwv
			return nil
		}
		if e := mkW(sinks[0]); e != nil {
			if typ == "bzip2" && lvl >= 1 && lvl <= 9 {
				o.Violate("C04", "NewWriter refused a valid level", "level-refused", line)
			}
			o.Emit(id, line, fmt.Sprintf("lwm id=%s t=%s level=%d final=%d sink=%s ops=-", id, typ, lvl, final, kv["sink"]), "refused", typ+"refused"+kv["level"])
			return
		}
		if typ == "bzip2" && (lvl < 0 || lvl > 9) {
			o.Violate("C04", "NewWriter accepted an invalid level", "level-accepted", line)
		}
		var accepted []byte
		var trace []string
		var res []string // per call: what the API-level model (kind lwm) must reproduce
		totalIn := 0
		counters := func() string {
			if typ == "bzip2" {
				return fmt.Sprintf("%d:%d", bz.InputOffset, bz.OutputOffset)
			}
			return fmt.Sprintf("%d:%d:%d", mwv.InputOffset, mwv.OutputOffset, mwv.NumBlocks)
		}
		closedOK, anyErr, latched := false, false, false
		for _, op := range strings.Split(kv["ops"], "|") {
			f := strings.SplitN(op, ":", 2)
			cur := sinks[len(sinks)-1]
			before := len(cur.got)
			switch f[0] {
			case "W":
				d := unhx(f[1])
				var n int
				var e error
				_, p := catch(func() { n, e = wr.Write(d) })
				if p != nil {
					o.Violate("C18", fmt.Sprintf("%s.Write panicked: %v", typ, p), "panic-write", line)
					return
				}
				trace = append(trace, fmt.Sprintf("W=%d,%s", n, errClass(e)))
				res = append(res, fmt.Sprintf("W:%d:%s:%s", n, errClass(e), counters()))
				totalIn += len(d)
				if n >= 0 && n <= len(d) {
					accepted = append(accepted, d[:n]...)
				}
				if e != nil {
					anyErr = true
				}
				if latched && e == nil {
					o.Violate("C13", typ+": Write returned nil after an earlier call had failed", "write-after-error", line)
				}
				if closedOK && (e == nil || len(cur.got) != before) {
					o.Violate("C18", typ+": Write after Close(nil) returned nil or emitted bytes", "write-after-close", line)
				}
				if e != nil {
					latched = true
				}
			case "C":
				var e error
				_, p := catch(func() { e = wr.Close() })
				if p != nil {
					o.Violate("C18", fmt.Sprintf("%s.Close panicked: %v", typ, p), "panic-close", line)
					return
				}
				trace = append(trace, "C="+errClass(e))
				res = append(res, fmt.Sprintf("C:%s:%s", errClass(e), counters()))
				if closedOK && (e != nil || len(cur.got) != before) {
					o.Violate("C18", typ+": second Close returned an error or emitted bytes", "close-idempotent", line)
				}
				if latched && e == nil && !closedOK {
					o.Violate("C13", typ+": Close returned nil after an earlier call had failed", "close-after-error", line)
				}
				if e != nil {
					anyErr, latched = true, true
				} else {
					closedOK = true
				}
			case "Z":
				ns := parseSinkSpec(f[1])
				sinks = append(sinks, ns)
				_, p := catch(func() {
					if typ == "bzip2" {
						bz.Reset(ns)
					} else {
						mwv.Reset(ns)
						xflate.VerifSetFinalMode(mwv, final)
					}
				})
				if p != nil {
					o.Violate("C18", fmt.Sprintf("%s.Reset panicked: %v", typ, p), "panic-reset", line)
					return
				}
				trace = append(trace, "Z")
				res = append(res, fmt.Sprintf("Z:%s:%s", hx(cur.got), counters()))
				accepted, closedOK, anyErr, latched = nil, false, false, false
			}
			if typ == "bzip2" {
				cur = sinks[len(sinks)-1]
				if bz.OutputOffset != int64(len(cur.got)) && cur.fails == 0 {
					o.Violate("C13", fmt.Sprintf("bzip2: OutputOffset=%d, sink accepted %d", bz.OutputOffset, len(cur.got)), "out-offset", line)
				}
				if bz.InputOffset != int64(len(accepted)) {
					o.Violate("C13", fmt.Sprintf("bzip2: InputOffset=%d, Write accepted %d", bz.InputOffset, len(accepted)), "in-offset", line)
				}
			}
		}
		last := sinks[len(sinks)-1]
		if last.fails > 0 {
			o.Count("lw-sink-failed")
			if closedOK {
				o.Violate("C13", typ+": Close returned nil although the sink had refused bytes", "close-nil-after-fault", line)
			}
			if !anyErr && strings.Contains(kv["ops"], "C") {
				o.Violate("C13", typ+": sink failure never surfaced", "fault-not-surfaced", line)
			}
		}
		if closedOK && last.fails == 0 {
			// the sink holds a complete stream that decodes to the accepted data; a fresh writer emits the same bytes (C14)
			var got []byte
			var e error
			if typ == "bzip2" {
				got, e = libBunzipAll(last.got)
				if e == nil {
					if g2, e2 := io.ReadAll(stdBzip2Reader(last.got)); e2 != nil || !bytes.Equal(g2, got) {
						o.Violate("C04", fmt.Sprintf("compress/bzip2 disagrees with libbzip2 on the Writer's output: %v", e2), "std-bzip2", line)
					}
					if g3, e3 := dsnetBunzipAll(last.got); e3 != nil || !bytes.Equal(g3, got) {
						o.Violate("C04", fmt.Sprintf("this package's Reader disagrees with libbzip2 on the Writer's output: %v", e3), "dsnet-bzip2", line)
					}
				}
			} else {
				d := metaDecode(last.got)
				got, e = d.payload, d.err
			}
			if e != nil || !bytes.Equal(got, accepted) {
				o.Violate("C13", fmt.Sprintf("%s: Close returned nil but the sink decodes to %d bytes (err %v), %d were accepted", typ, len(got), e, len(accepted)), "false-success", line)
			}
			fs := &faultSink{budget: -1}
			var fw interface {
				Write([]byte) (int, error)
				Close() error
			}
			if typ == "bzip2" {
				fw, _ = dbzip2.NewWriter(fs, &dbzip2.WriterConfig{Level: lvl})
			} else {
				mw := xflate.VerifNewMetaWriter(fs)
				xflate.VerifSetFinalMode(mw, final)
				fw = mw
			}
			fw.Write(accepted)
			fw.Close()
			if !bytes.Equal(fs.got, last.got) {
				o.Violate("C14", typ+": a reused (Reset) or split-written Writer emits different bytes than a fresh one given the data at once", "writer-reset-or-split", line)
			}
		}
		o.Count("lw-" + typ)
		// the API-level models take part unless the scenario is too big for the rotation-sort BWT of the
		// Lean model (about 15 s per full 100000-byte block); model=1 forces, model=0 forbids
		scn := ""
		if (totalIn <= 20000 || kv["model"] == "1") && kv["model"] != "0" {
			scn = fmt.Sprintf("lwm id=%s t=%s level=%d final=%d sink=%s ops=%s", id, typ, lvl, final, kv["sink"], kv["ops"])
			o.Count("lw-model-" + typ)
		}
		res = append(res, "sink="+hx(last.got))
		o.Emit(id, line, scn, strings.Join(res, "|"), typ+kv["ops"][:min(len(kv["ops"]), 80)]+kv["sink"]+kv["level"])
	}
}

func genLife(r *Rand, tier string, emit func(string)) {
	thorough := tier == "thorough"
	// stream pool per type
	type pool struct{ streams, plains []string }
	pools := map[string]pool{}
	for _, t := range readerTypes {
		var p pool
		for i := 0; i < 3; i++ {
			plain := r.Bytes(1 + r.Intn(400))
			s := encodeFor(t, plain, r)
			p.streams = append(p.streams, hx(s))
			p.plains = append(p.plains, hx(plain))
			if i == 0 { // a corrupt and a truncated variant
				c := append([]byte(nil), s...)
				c[len(c)/2] ^= 0x55
				p.streams = append(p.streams, hx(c), hx(s[:len(s)*2/3]))
				p.plains = append(p.plains, "?", "?")
			}
			if t == "flate" || t == "brotli" || t == "bzip2" {
				srcs := []string{"bytes", "byte", "readonly"}
				emit(fmt.Sprintf("trunc t=%s src=%s stream=%s plain=%s", t, srcs[r.Intn(3)], hx(s), hx(plain)))
				if i == 0 && len(s) < 300 {
					emit(fmt.Sprintf("trunc t=%s src=all stream=%s plain=%s", t, hx(s), hx(plain)))
				}
			}
			if t == "flate" && i == 0 {
				// stored, fixed and dynamic blocks in one stream (three sync flushes)
				var bb bytes.Buffer
				pl := []byte("stored-block-payload")
				zw, _ := stdflate.NewWriter(&bb, stdflate.NoCompression)
				zw.Write(pl)
				zw.Flush()
				zw.Write([]byte("second"))
				zw.Flush()
				zw.Close()
				emit(fmt.Sprintf("trunc t=flate src=all stream=%s plain=%s", hx(bb.Bytes()), hx(append(pl, "second"...))))
			}
		}
		pools[t] = p
	}
	// a three-block bzip2 stream abandoned after 0 / 1 / 2 completed blocks, then Reset onto a small one;
	// dictionary-heavy brotli text read to the end (the window buffer is full), then Reset onto another
	{
		big := r.Bytes(250000)
		var bb bytes.Buffer
		zw, _ := dbzip2.NewWriter(&bb, &dbzip2.WriterConfig{Level: 1})
		zw.Write(big)
		zw.Close()
		small := encodeFor("bzip2", []byte("a small second stream"), r)
		for _, n := range []int{1, 50000, 150000, 230000} {
			emit(fmt.Sprintf("lr t=bzip2 src=bytes fail=- streams=%s,%s plains=?,%s ops=R:%d|Z:1|A|C", hx(bb.Bytes()), hx(small), hx([]byte("a small second stream")), n))
		}
		text := func(n int) []byte {
			words := strings.Fields("the of and to in is that for it was as with be by on not he this are or his from at which but have an had they you were their one all we can her has there been if more when will would who so no time some could them only other new two may then do first any my now such like our over man me even most made after also did many before must through back years where much your way well down should because each just those people how too little state good very make world still own see men work long get here between both life being under never day same another know while last might us great old year off come since against go came right used take three")
			var b []byte
			for len(b) < n {
				w := words[r.Intn(len(words))]
				if r.Intn(5) == 0 {
					w = strings.ToUpper(w[:1]) + w[1:]
				}
				b = append(b, w...)
				b = append(b, []string{" ", ", ", ". ", "\n\t"}[r.Intn(4)]...)
			}
			return b
		}
		enc := func(d []byte, q int) []byte {
			var o bytes.Buffer
			w := cbrotli.NewWriter(&o, q)
			w.Write(d)
			w.Close()
			return o.Bytes()
		}
		a, b2 := text(100000), text(20000)
		for _, q := range []int{11, 9, 5} {
			for _, n := range []int{100, 5000, 1 << 20} {
				emit(fmt.Sprintf("lr t=brotli src=bytes fail=- streams=%s,%s plains=%s,%s ops=R:%d|Z:1|A|C", hx(enc(a, q)), hx(enc(b2, q)), hx(a), hx(b2), n))
			}
		}
	}
	// Reset onto sources that stand at a non-zero offset / onto the same re-targeted source object,
	// after the previous stream was abandoned early, failed in its first bytes, or was read to the end
	for _, t := range readerTypes {
		if t == "xflate" {
			continue
		}
		p := pools[t]
		for _, src := range []string{"bytes", "strings", "bufio16", "buffer"} {
			for i := range p.streams {
				for j := range p.streams {
					for _, pre := range []string{"", "R:1|", "R:7|", "A|", "R:1|C|"} {
						k := r.Intn(8)
						emit(fmt.Sprintf("lr t=%s src=%s fail=- streams=%s plains=%s ops=Z:%d|%sY:%d:%d|A", t, src, strings.Join(p.streams, ","), strings.Join(p.plains, ","), i, pre, j, k))
						if src != "bufio16" && r.Intn(2) == 0 {
							emit(fmt.Sprintf("lr t=%s src=%s fail=- streams=%s plains=%s ops=Z:%d|%sX:%d|A", t, src, strings.Join(p.streams, ","), strings.Join(p.plains, ","), i, pre, j))
						}
					}
				}
			}
		}
	}
	ropAlpha := []string{"R:0", "R:1", "R:7", "R:100000", "C", "A"}
	depth := 3
	if thorough {
		depth = 4
	}
	for _, t := range readerTypes {
		p := pools[t]
		al := append([]string{}, ropAlpha...)
		for i := range p.streams {
			al = append(al, fmt.Sprintf("Z:%d", i))
		}
		var rec func(pre []string, k int)
		rec = func(pre []string, k int) {
			if k == 0 {
				src := []string{"bytes", "byte", "readonly", "bufio16"}[r.Intn(4)]
				emit(fmt.Sprintf("lr t=%s src=%s fail=- streams=%s plains=%s ops=%s|A", t, src, strings.Join(p.streams, ","), strings.Join(p.plains, ","), strings.Join(pre, "|")))
				return
			}
			for _, a := range al {
				rec(append(pre, a), k-1)
			}
		}
		rec(nil, depth)
		// injected source errors at every position of the first stream (sampled for long ones)
		if t != "xflate" {
			s := unhx(p.streams[0])
			for k := 0; k <= len(s); k++ {
				if len(s) > 120 && k%5 != 0 && k < len(s)-1 {
					continue
				}
				if k == len(s) { // a source that delivers everything and then fails instead of reporting io.EOF
					for _, fs := range []string{"failend", "bytefailend"} {
						emit(fmt.Sprintf("lr t=%s src=%s fail=- streams=%s plains=%s ops=R:100000|R:1|R:0|C|C", t, fs, p.streams[0], p.plains[0]))
					}
				}
				src := []string{"adv", "byte", "readonly", "bufio16"}[r.Intn(4)]
				emit(fmt.Sprintf("lr t=%s src=%s fail=%d streams=%s plains=%s ops=R:50|R:100000|R:100000|R:1|R:0|C|R:1|C", t, src, k, p.streams[0], p.plains[0]))
				if r.Intn(4) == 0 {
					// the source fails with an error this package also uses as its closed marker
					emit(fmt.Sprintf("lr t=%s src=%s fail=%d etag=%d streams=%s plains=%s ops=R:100000|R:1|C|C", t, src, k, closedTag(t), p.streams[0], p.plains[0]))
				}
			}
		}
	}
	// xflate.Reader over ReadSeekers that fragment their data: pool streams and streams with several
	// chunks and indexes, at several fragment patterns and Read buffer lengths
	{
		p := pools["xflate"]
		var streams, plains []string
		for i := range p.streams {
			streams = append(streams, p.streams[i])
			pl := "?"
			if i < len(p.plains) {
				pl = p.plains[i]
			}
			plains = append(plains, pl)
		}
		for i := 0; i < 6; i++ {
			plain := r.Bytes(200 + r.Intn(6000))
			if i%2 == 0 {
				for j := range plain {
					plain[j] = "abcdefgh"[int(plain[j])%8]
				}
			}
			var bb bytes.Buffer
			xw, _ := xflate.NewWriter(&bb, &xflate.WriterConfig{Level: []int{-1, 0, 6}[i%3], ChunkSize: int64(64 + r.Intn(900)), IndexSize: int64(1 + r.Intn(4))})
			xw.Write(plain[:len(plain)/2])
			xw.Flush(xflate.FlushMode(1 + i%3))
			xw.Write(plain[len(plain)/2:])
			xw.Close()
			streams = append(streams, hx(bb.Bytes()))
			plains = append(plains, hx(plain))
		}
		for i, st := range streams {
			for _, fr := range []string{"1", "2", "3", "1,2,3,5", "7,1,4096", "4095", "5,3"} {
				for _, ew := range []string{"0", "1"} {
					buf := []int{1, 7, 4096}[r.Intn(3)]
					line := fmt.Sprintf("lxf frags=%s eofwith=%s buf=%d stream=%s", fr, ew, buf, st)
					if plains[i] != "?" {
						line += " plain=" + plains[i]
					}
					emit(line)
				}
			}
		}
	}
	// xflate.Reader over a ReadSeeker that starts failing after k Read calls: with the token error
	// and with a Closed-coded error (what a closed dsnet handler underneath returns)
	{
		p := pools["xflate"]
		for k := 0; k <= 14; k++ {
			for _, tag := range []int{9, 100} {
				emit(fmt.Sprintf("lxs okcalls=%d etag=%d stream=%s", k, tag, p.streams[k%len(p.streams)]))
			}
		}
		// the same after a Seek into the data: the source is fine while the stream is opened and
		// fails on the first / second / third Read after the Seek
		for i, st := range p.streams {
			pl := 0
			if i < len(p.plains) && p.plains[i] != "?" {
				pl = len(p.plains[i]) / 2
			}
			for _, off := range []int{1, 3, pl / 2, pl - 1} {
				if off <= 0 {
					continue
				}
				for after := 0; after <= 2; after++ {
					emit(fmt.Sprintf("lxs okcalls=1000 seek=%d after=%d etag=%d stream=%s", off, after, []int{9, 100}[after%2], st))
				}
			}
		}
	}
	// one Write that spans several bzip2 blocks (level 1: 100000 bytes each after RLE1) over a sink
	// that fails while a block is flushed from inside Write
	for i := 0; i < 3; i++ {
		d := make([]byte, 230000+r.Intn(50000))
		for j := range d {
			d[j] = byte(r.U64())
		}
		fail := []int{30000 + r.Intn(60000), 120000 + r.Intn(60000), 4}[i]
		emit(fmt.Sprintf("lw t=bzip2 level=1 sink=%d:%s:1:9 ops=W:%s|W:%s|C|C", fail, []string{"hard", "short"}[i%2], hx(d), hx(r.Bytes(10))))
	}
	// writers
	nW := 300
	if thorough {
		nW = 5000
	}
	for i := 0; i < nW; i++ {
		typ := []string{"bzip2", "meta"}[r.Intn(2)]
		lvl := 1 + r.Intn(9)
		if r.Intn(15) == 0 {
			lvl = []int{-1, 0, 10, 100}[r.Intn(4)]
		}
		var ops []string
		total := 0
		for k := r.Intn(6); k > 0; k-- {
			n := r.Intn(300)
			if r.Intn(4) == 0 {
				n = 0
			}
			ops = append(ops, "W:"+hx(r.Bytes(n)))
			total += n
		}
		tail := []string{"C"}
		switch r.Intn(6) {
		case 0:
			tail = []string{"C", "C", "W:" + hx(r.Bytes(4)), "C"}
		case 1:
			tail = []string{"C", "Z:-", "W:" + hx(r.Bytes(30)), "C"}
		case 2:
			tail = []string{"Z:-", "W:" + hx(r.Bytes(30)), "C"}
		}
		sink := "-"
		if r.Intn(2) == 0 {
			tag := 9
			if r.Intn(4) == 0 {
				// a sink error the writer also uses as its closed marker; a failed Close is followed by another
				tag = closedTag(typ)
				tail = append(tail, "C")
			}
			sink = fmt.Sprintf("%d:%s:%d:%d", r.Intn(total/2+60), []string{"hard", "short"}[r.Intn(2)], r.Intn(2), tag)
		}
		emit(fmt.Sprintf("lw t=%s level=%d sink=%s ops=%s", typ, lvl, sink, strings.Join(append(ops, tail...), "|")))
	}
}

func init() {
	register(&Family{
		Name: "life",
		Rule: "call sequences on every Reader type (flate, brotli, bzip2, meta, xflate): all sequences of a fixed depth over {Read 0/1/7/all, Close, ReadAll, Reset onto any of 5 streams (valid, corrupt, truncated)} through bytes.Reader / ReadByte-only / Read-only / bufio16 sources; source errors injected at every position; every proper prefix of valid streams; and on bzip2.Writer / meta.Writer: random Write/Close/Reset sequences with hard/short, once/forever sink faults and invalid levels. Clauses evaluated on the trace: no panic, sticky errors, Close result, closed refuses, error classes, injected errors verbatim, truncation gives io.ErrUnexpectedEOF, Reset equals fresh, counters, no false success, output decodes (3 bzip2 decoders) and equals a fresh writer's. Distinct by scenario",
		Gen:  genLife,
		Exec: execLife,
	})
}

func stdFlateWriter(w io.Writer, lvl int) (*stdflate.Writer, error) { return stdflate.NewWriter(w, lvl) }

func stdBzip2Reader(b []byte) io.Reader { return stdbz.NewReader(bytes.NewReader(b)) }
