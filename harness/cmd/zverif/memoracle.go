package main

// Memory oracle for C08 ("memory bounded by a constant for the format's window or block size
// plus a small multiple of the input and delivered output - never by a number merely declared
// inside the input").  The decoder is run once more on the scenario's input with a reused read
// buffer and its output discarded, and the bytes the Go heap allocated during that run
// (runtime/metrics /gc/heap/allocs:bytes, cumulative, so freed garbage counts too) are compared
// with  constBytes + perByte*(len(in)+delivered).  It is a search oracle, not a proof: the
// allocation theorems (C08_window_lazy_growth, C08_index_alloc_bounded) are the proved part.

import (
	"fmt"
	"io"
	"runtime/metrics"
)

var allocSample = []metrics.Sample{{Name: "/gc/heap/allocs:bytes"}}

func heapAllocs() uint64 {
	metrics.Read(allocSample)
	return allocSample[0].Value.Uint64()
}

var memScratch [1 << 15]byte

// drain reads r to its first error with the shared scratch buffer; returns bytes delivered.
func drain(r io.Reader) int {
	n := 0
	for i := 0; i < 1<<24; i++ {
		k, err := r.Read(memScratch[:])
		n += k
		if err != nil {
			break
		}
	}
	return n
}

// memOracle runs f under a watchdog/recover (a panic or hang here is reported elsewhere) and
// checks the allocation bound.  Statistics: the largest excess over the linear part is kept in
// the distribution so that the evidence shows how far the unchanged tree is from the bound.
func memOracle(o *Out, line, what string, constBytes, perByte uint64, inLen int, f func() int) {
	var used uint64
	delivered := 0
	ok := withWatchdog(timeSec(60), func() {
		catch(func() {
			a := heapAllocs()
			delivered = f()
			used = heapAllocs() - a
		})
	})
	if !ok {
		return
	}
	o.Count("mem-oracle-" + what)
	lin := perByte * uint64(inLen+delivered)
	if used > lin {
		ex := int((used - lin) >> 10)
		if ex > o.Stats["mem-max-excess-KiB-"+what] {
			o.Stats["mem-max-excess-KiB-"+what] = ex
		}
	}
	if used > constBytes+lin {
		o.Violate("C08", fmt.Sprintf("%s allocated %d bytes on a %d-byte input delivering %d bytes (bound %d + %d per byte)",
			what, used, inLen, delivered, constBytes, perByte), "mem-"+what, line)
	}
}
