package main

// Family "mrm": meta.Reader against its API-level Lean model
// (Compress/Meta/ReaderApi.lean). Scenario lines are of kind "lr t=meta" and
// are executed by execLife, which evaluates the C09/C18/C14 clauses on the
// trace and hands the per-call results (bytes, error class, InputOffset,
// OutputOffset, NumBlocks, FinalMode) to the model comparison (kind mrm).

import (
	"fmt"
	"strings"
)

func genMrm(r *Rand, tier string, emit func(string)) {
	thorough := tier == "thorough"
	cat := func(bs ...[]byte) []byte {
		var o []byte
		for _, b := range bs {
			o = append(o, b...)
		}
		return o
	}
	line := func(src string, fail string, etag int, streams [][]byte, ops []string) {
		var hs []string
		for _, s := range streams {
			hs = append(hs, hx(s))
		}
		e := ""
		if etag != 9 {
			e = fmt.Sprintf(" etag=%d", etag)
		}
		emit(fmt.Sprintf("lr t=meta src=%s fail=%s%s streams=%s plains=%s ops=%s", src, fail, e, strings.Join(hs, ","),
			strings.Repeat("?,", len(hs)-1)+"?", strings.Join(ops, "|")))
	}
	allSrc := []string{"bytes", "byte", "readonly", "bufio16", "adv", "strings", "buffer", "onebyte", "eofwith", "byteeof", "bufio4096"}
	failSrc := []string{"adv", "byte", "readonly", "bufio16", "onebyte", "eofwith"}
	// stream pool: empty input; one block (empty payload, 1 byte, 31 bytes); several FinalNil blocks without a
	// final one (ends with io.EOF of the source, FinalMode stays nil); multi-block payloads with FinalMeta /
	// FinalStream; empty-payload blocks in a row; trailing bytes (junk, another stream) after a final block;
	// a corrupt and a truncated variant; synthesized non-canonical blocks; junk
	one := func(n, final int) []byte { return metaStream(r.Bytes(n), final) }
	multi := metaStream(r.Bytes(70+r.Intn(60)), 1)
	multiS := metaStream(r.Bytes(200+r.Intn(200)), 2)
	nofinal := cat(one(5, 0), one(0, 0), one(31, 0))
	empties := cat(one(0, 0), one(0, 0), one(0, 0), one(3, 1))
	corrupt := append([]byte(nil), multi...)
	corrupt[len(corrupt)/2] ^= 0x55
	pool := [][]byte{
		nil, one(0, 1), one(1, 2), one(31, 1), one(0, 0), nofinal, multi, multiS, empties,
		cat(one(4, 1), r.Bytes(9)), cat(one(4, 2), one(7, 1)), cat(multi, []byte{0}), cat(one(2, 0), one(0, 2), multi),
		corrupt, multi[:len(multi)*2/3], multi[:len(multi)-1], cat(one(3, 0), []byte{4}), cat(one(3, 0), multi[:7]),
		synthMetaBlocks(r, 3), synthMetaBlocks(r, 40), r.Bytes(20), {0x04, 0x00, 0x86, 0x05},
	}
	// (1) every stream x Read schedules x source kinds
	scheds := [][]string{
		{"A", "R:1", "C", "C", "R:1"},
		{"R:0", "R:1", "R:1", "R:0", "R:1", "R:1", "R:1", "A", "R:0", "C"},
		{"R:7", "R:7", "R:7", "R:7", "R:7", "R:7", "R:100", "R:100", "R:100", "R:1", "C", "R:7", "C"},
		{"R:31", "R:32", "R:30", "R:100000", "R:100000", "R:100000", "R:100000", "R:100000", "R:100000", "R:100000", "R:100000", "R:100000", "R:0", "C"},
		{"R:1", "R:1", "R:1", "R:1", "R:1", "R:1", "R:1", "R:1", "R:1", "R:1", "R:1", "R:1", "R:1", "R:1", "R:1", "R:1", "R:1", "R:1", "R:1", "R:1", "R:1", "R:1", "R:1", "R:1", "R:1", "R:1", "R:1", "R:1", "R:1", "R:1", "R:1", "R:1", "R:1", "R:1", "R:1", "R:1", "R:1", "R:1", "R:1", "R:1", "A", "C"},
		{"C", "R:1", "R:0", "A", "C"},
		{"R:3", "C", "R:3", "C", "A"},
		{"R:0", "C", "C"},
	}
	for i, s := range pool {
		for j, sc := range scheds {
			srcs := allSrc
			if !thorough {
				srcs = []string{allSrc[(i+j)%len(allSrc)], allSrc[(i+2*j+1)%len(allSrc)], "byte"}
			}
			for _, src := range srcs {
				line(src, "-", 9, [][]byte{s}, sc)
			}
		}
	}
	// (2) a fault at every byte position (and after the last byte) of several streams
	faultStreams := [][]byte{one(0, 1), one(9, 2), multi, nofinal, cat(one(4, 1), r.Bytes(5)), empties}
	tails := [][]string{
		{"R:100000", "R:100000", "R:100000", "R:100000", "R:100000", "R:100000", "R:1", "R:0", "C", "R:1", "C"},
		{"A", "R:1", "C", "C"},
		{"R:1", "R:1", "R:1", "R:1", "R:1", "R:1", "R:1", "R:1", "A", "C", "R:0"},
		{"R:0", "R:40", "C", "R:40", "R:40", "R:40", "R:40", "R:40", "R:40", "R:40", "C"},
	}
	for i, s := range faultStreams {
		for k := 0; k <= len(s); k++ {
			if !thorough && len(s) > 100 && k%3 != 0 && k > 16 && k < len(s)-3 {
				continue
			}
			for m := 0; m < 2; m++ {
				src := failSrc[(i+k+3*m)%len(failSrc)]
				if m == 1 {
					src = "byte"
				}
				tag := 9
				if (k+m)%5 == 0 {
					tag = closedTag("meta")
				}
				tail := tails[(k+m)%len(tails)]
				if k == len(s) {
					src = []string{"failend", "bytefailend"}[m]
					line(src, "-", tag, [][]byte{s}, tail)
				} else {
					line(src, fmt.Sprint(k), tag, [][]byte{s}, tail)
				}
			}
		}
	}
	// (3) Close / Read / Reset in every order: all sequences of depth 4 over {R:0, R:5, A, C, Z:0, Z:1, Z:2}
	// on (multi-block, corrupt, no-final-block) streams, and random longer ones
	{
		streams := [][]byte{multi, corrupt, nofinal}
		al := []string{"R:0", "R:5", "A", "C", "Z:0", "Z:1", "Z:2"}
		depth := 4
		var rec func(pre []string, k int)
		n := 0
		rec = func(pre []string, k int) {
			if k == 0 {
				n++
				if !thorough && n%3 != 0 {
					return
				}
				line(allSrc[n%len(allSrc)], "-", 9, streams, append(append([]string{}, pre...), "R:1000", "R:1000"))
				return
			}
			for _, a := range al {
				rec(append(pre, a), k-1)
			}
		}
		rec(nil, depth)
	}
	nR := 300
	if thorough {
		nR = 5000
	}
	for i := 0; i < nR; i++ {
		var streams [][]byte
		for k := 0; k < 3; k++ {
			streams = append(streams, pool[r.Intn(len(pool))])
		}
		var ops []string
		for k := 2 + r.Intn(14); k > 0; k-- {
			switch r.Intn(10) {
			case 0:
				ops = append(ops, "R:0")
			case 1, 2:
				ops = append(ops, "R:1")
			case 3, 4:
				ops = append(ops, fmt.Sprintf("R:%d", 1+r.Intn(40)))
			case 5:
				ops = append(ops, "R:100000")
			case 6:
				ops = append(ops, "A")
			case 7:
				ops = append(ops, "C")
			case 8:
				ops = append(ops, fmt.Sprintf("Z:%d", r.Intn(3)))
			case 9:
				ops = append(ops, []string{fmt.Sprintf("Y:%d:%d", r.Intn(3), r.Intn(8)), fmt.Sprintf("X:%d", r.Intn(3))}[r.Intn(2)])
			}
		}
		fail, src := "-", allSrc[r.Intn(len(allSrc))]
		tag := 9
		if r.Intn(2) == 0 {
			src = failSrc[r.Intn(len(failSrc))]
			fail = fmt.Sprint(r.Intn(90))
			if r.Intn(4) == 0 {
				tag = closedTag("meta")
			}
		}
		if fail != "-" { // Y and X build their sources without the fault
			for k, op := range ops {
				if op[0] == 'Y' || op[0] == 'X' {
					ops[k] = "Z:" + strings.Split(op, ":")[1]
				}
			}
		}
		line(src, fail, tag, streams, ops)
	}
}

func init() {
	register(&Family{
		Name: "mrm",
		Rule: "meta.Reader vs its API-level Lean model (Meta/ReaderApi.lean): 22 streams (empty input, single blocks with 0/1/31 payload bytes, FinalNil-only streams, multi-block payloads with FinalMeta/FinalStream, runs of empty blocks, trailing junk or a second stream after a final block, corrupt, truncated, synthesized non-canonical blocks, junk) x 8 Read schedules (zero-length, 1-byte, 7, 31/32, huge, ReadAll, Close first/in the middle/twice) x source kinds (Peek/Discard, ReadByte-only, plain Read, bufio, adversarial Buffered()); a source fault at every byte position and after the last byte of 6 streams (token and Closed-coded error) x 4 tails; all depth-4 sequences over {Read 0/5, ReadAll, Close, Reset onto 3 streams} and random longer ones incl. Resets onto sources at non-zero offsets. Compared per call: bytes, error class, InputOffset, OutputOffset, NumBlocks, FinalMode. The oracle clauses of family life (kind lr) are evaluated on the same runs. Distinct by scenario",
		Gen:  genMrm,
		Exec: execLife,
	})
}
