package main

// Family "bzw": bzip2.Writer (C04): emitted bytes vs the Lean model, three
// decoders, split independence, level refusal.

import (
	"bytes"
	"fmt"
	"io"
	"strconv"
	"strings"

	dbzip2 "github.com/dsnet/compress/bzip2"
)

func bzWrite(level int, data []byte, splits []int) ([]byte, error) {
	var bb bytes.Buffer
	zw, err := dbzip2.NewWriter(&bb, &dbzip2.WriterConfig{Level: level})
	if err != nil {
		return nil, err
	}
	rest := data
	for _, n := range splits {
		if n > len(rest) {
			n = len(rest)
		}
		if _, err := zw.Write(rest[:n]); err != nil {
			return nil, err
		}
		rest = rest[n:]
	}
	if _, err := zw.Write(rest); err != nil {
		return nil, err
	}
	if err := zw.Close(); err != nil {
		return nil, err
	}
	return bb.Bytes(), nil
}

func execBzw(o *Out, id, line string) {
	_, kv := parseLine(line)
	data := unhx(kv["in"])
	edgeAt, edgeRun := -1, 0
	if g := kv["gen"]; g != "" { // large inputs are described, not spelled out
		f := strings.Split(g, ":")
		n, _ := strconv.Atoi(f[1])
		seed, _ := strconv.ParseUint(f[2], 10, 64)
		rr := NewRand(seed)
		data = make([]byte, n)
		for i := range data {
			data[i] = byte(rr.U64())
		}
		if f[0] == "period" {
			reps, _ := strconv.Atoi(f[1])
			data = bytes.Repeat([]byte(f[3]), reps)
			f = f[:3]
		}
		if f[0] == "edge" {
			// run-free bytes up to k bytes before the level's block limit, then a run of m equal
			// bytes, then a tail: the RLE1 block buffer fills up inside or right at the run
			lvl, _ := strconv.Atoi(kv["level"])
			k, _ := strconv.Atoi(f[3])
			m, _ := strconv.Atoi(f[4])
			n = lvl*100000 - k
			data = make([]byte, 0, n+m+40)
			prev := byte(0x5a)
			for len(data) < n {
				b := byte(rr.U64())
				if b == prev || b == 0x5a {
					continue
				}
				data = append(data, b)
				prev = b
			}
			for i := 0; i < m; i++ {
				data = append(data, 0x5a)
			}
			data = append(data, "tail-of-the-input"...)
			edgeAt, edgeRun = n, m
			f = f[:3]
		}
		// a run of equal bytes placed around the block limit
		if len(f) > 4 {
			at, _ := strconv.Atoi(f[3])
			run, _ := strconv.Atoi(f[4])
			for i := at; i < at+run && i < len(data); i++ {
				if i >= 0 {
					data[i] = 0x5a
				}
			}
		}
	}
	level, _ := strconv.Atoi(kv["level"])
	var out []byte
	var err error
	var pn interface{}
	if !withWatchdog(timeSec(120), func() { _, pn = catch(func() { out, err = bzWrite(level, data, parseInts(kv["splits"])) }) }) {
		o.Violate("C08", "bzip2.Writer did not finish within 120s", "writer-hang", line)
		o.Emit(id, line, "", "hang", kv["gen"]+kv["level"])
		return
	}
	if pn != nil {
		o.Violate("C04", fmt.Sprintf("bzip2.Writer panicked: %v", pn), "writer-panic", line)
		o.Emit(id, line, "", "panic", kv["gen"]+kv["level"])
		return
	}
	if err != nil {
		if level == 0 || (level >= 1 && level <= 9) {
			o.Violate("C04", "bzip2.Writer failed: "+err.Error(), "writer-error", line)
		}
		o.Count("refused")
		o.Emit(id, line, "", "refused", "lvl"+kv["level"])
		return
	}
	if level < 0 || level > 9 {
		o.Violate("C04", "NewWriter accepted level "+kv["level"], "level-accepted", line)
	}
	o.Count(fmt.Sprintf("level%d", level))
	o.Count("size-" + bucket(len(data)))
	lv := level
	if lv == 0 {
		lv = 6
	}
	if len(data) <= 20000 || kv["model"] == "1" {
		o.Emit(id, line, fmt.Sprintf("bzw id=%s level=%d in=%s", id, lv, hx(data)), hx(out), kv["level"]+"/"+kv["in"][:min(len(kv["in"]), 60)]+kv["gen"])
	} else {
		o.Emit(id, line, "", "big", kv["gen"]+kv["level"])
	}
	// three decoders
	if got, e := libBunzipAll(out); e != nil || !bytes.Equal(got, data) {
		o.Violate("C04", fmt.Sprintf("libbzip2 on the Writer's output: err=%v equal=%v", e, bytes.Equal(got, data)), "dec-libbz2", line)
	}
	if got, e := io.ReadAll(stdBzip2Reader(out)); e != nil || !bytes.Equal(got, data) {
		o.Violate("C04", fmt.Sprintf("compress/bzip2 on the Writer's output: err=%v equal=%v", e, bytes.Equal(got, data)), "dec-std", line)
	}
	if got, e := dsnetBunzipAll(out); e != nil || !bytes.Equal(got, data) {
		o.Violate("C04", fmt.Sprintf("bzip2.Reader on the Writer's output: err=%v equal=%v", e, bytes.Equal(got, data)), "dec-dsnet", line)
		if g2, e2 := libBunzipAll(out); e2 == nil && bytes.Equal(g2, data) {
			o.Violate("C03", fmt.Sprintf("bzip2.Reader rejects or misreads a stream libbzip2 decodes correctly: err=%v equal=%v", e, bytes.Equal(got, data)), "writer-stream-rejected", line)
		}
	}
	// split points inside and around a run that meets the block limit
	for j := -1; edgeAt >= 0 && j <= edgeRun+1; j++ {
		if edgeRun > 16 && j > 6 && j < edgeRun-2 && j != 254 && j != 255 && j != 256 {
			continue // long runs: the ends of the run and the 255/256 boundary
		}
		o.Count("edge-split")
		_, p := catch(func() {
			out2, err2 := bzWrite(level, data, []int{edgeAt + j, 0})
			if err2 != nil || !bytes.Equal(out2, out) {
				o.Violate("C04", fmt.Sprintf("a Write boundary %d bytes into the run at the block limit changes the output (err=%v)", j, err2), "split-dependent-at-limit", line)
			}
		})
		if p != nil {
			o.Violate("C04", fmt.Sprintf("bzip2.Writer panicked with a Write boundary %d bytes into the run at the block limit: %v", j, p), "writer-panic", line)
		}
	}
	// split independence
	if len(data) > 0 {
		rr := NewRand(uint64(len(data))*31 + uint64(level))
		var sp []int
		for k := rr.Intn(6); k > 0; k-- {
			sp = append(sp, rr.Intn(len(data)+1)/(1+rr.Intn(3)))
		}
		sp = append(sp, 0, 1)
		out2, err2 := bzWrite(level, data, sp)
		if err2 != nil || !bytes.Equal(out2, out) {
			o.Violate("C04", "emitted bytes depend on how the input was split over Write calls", "split-dependent", line)
		}
	}
}

func genBzw(r *Rand, tier string, emit func(string)) {
	thorough := tier == "thorough"
	for _, lvl := range []int{-1, 0, 1, 2, 5, 9, 10, 11} {
		emit(fmt.Sprintf("bzw level=%d in=%s", lvl, hx(r.Bytes(50))))
	}
	emit("bzw level=3 in=-")
	n := 50
	if thorough {
		n = 2500
	}
	for i := 0; i < n; i++ {
		sz := r.Intn(600)
		if r.Intn(6) == 0 {
			sz = r.Intn(6000)
		}
		d := r.Bytes(sz)
		switch r.Intn(6) {
		case 0: // long runs: RLE1 counts, run cap 255+4
			d = bytes.Repeat([]byte{byte(r.U64())}, 1+r.Intn(900))
			d = append(d, r.Bytes(r.Intn(20))...)
		case 1: // tiny alphabets
			k := 1 + r.Intn(3)
			for j := range d {
				d[j] = byte('a' + r.Intn(k))
			}
		case 2: // skewed frequencies (Fibonacci-like) to force length limiting
			var b []byte
			a, c := 1, 1
			for s := 0; s < 40 && len(b) < 30000; s++ {
				for k := 0; k < a && len(b) < 30000; k++ {
					b = append(b, byte(s*5+1))
				}
				a, c = c, a+c
			}
			// shuffle to defeat runs
			for j := len(b) - 1; j > 0; j-- {
				k := r.Intn(j + 1)
				b[j], b[k] = b[k], b[j]
			}
			d = b
		}
		var sp []string
		for k := r.Intn(4); k > 0; k-- {
			sp = append(sp, strconv.Itoa(r.Intn(len(d)+1)))
		}
		emit(fmt.Sprintf("bzw level=%d splits=%s in=%s", 1+r.Intn(9), joinOr(sp, ","), hx(d)))
	}
	// around the block limit at level 1: random bytes with a run of 1..300 equal bytes at every kind of offset
	m := 3
	if thorough {
		m = 40
	}
	for i := 0; i < m; i++ {
		run := 1 + r.Intn(300)
		at := 100000 - 310 + r.Intn(620)
		size := 100000 + r.Intn(700)
		model := 0
		if i == 0 && thorough { // the Lean model sorts 100000 rotations: thorough tier only
			model = 1
		}
		emit(fmt.Sprintf("bzw level=1 model=%d gen=rnd:%d:%d:%d:%d", model, size, r.U64()%1000000, at, run))
	}
	if thorough {
		emit(fmt.Sprintf("bzw level=2 gen=rnd:%d:%d", 430000, 77))
	}
	// full blocks of incompressible data at level 1 (a block of exactly 100000 symbols
	// happens for about one in four of them)
	nfull := 10
	if thorough {
		nfull = 60
	}
	for i := 0; i < nfull; i++ {
		emit(fmt.Sprintf("bzw level=1 gen=rnd:%d:%d", 150000+r.Intn(100), r.U64()%1000000))
	}
	// the block limit meets a run: k run-free bytes short of the limit, then m equal bytes
	ks, ms := []int{0, 1, 2, 3, 4, 5}, []int{2, 3, 4, 5, 8, 12}
	if thorough {
		ks, ms = []int{0, 1, 2, 3, 4, 5, 6, 7, 8}, []int{1, 2, 3, 4, 5, 6, 7, 8, 12, 259, 260, 300}
	}
	for _, k := range ks {
		for _, m := range ms {
			emit(fmt.Sprintf("bzw level=%d gen=edge:0:%d:%d:%d", 1+r.Intn(2)*(k%2), r.U64()%1000000, k, m))
		}
	}
	// a run of 255..300 equal bytes whose first 255 bytes (4 literals + count) end 0-2 bytes
	// before / exactly at / past the block limit: the 256th byte must open the next block
	for _, k := range []int{3, 4, 5, 6, 7} {
		for _, m := range []int{255, 256, 257, 300} {
			emit(fmt.Sprintf("bzw level=1 gen=edge:0:%d:%d:%d", r.U64()%1000000, k, m))
		}
	}
	// periodic inputs: after the BWT one block holds runs of >= 65536 equal bytes, i.e. zero-rank
	// runs beyond 16 bits in the move-to-front stage
	for _, p := range []string{"ab", "abc", "a"} {
		for _, reps := range []int{70000, 140001} {
			emit(fmt.Sprintf("bzw level=%d gen=period:%d:0:%s", 2+r.Intn(8), reps, p))
		}
	}
}

func init() {
	register(&Family{
		Name: "bzw",
		Rule: "bzip2.Writer: invalid and valid levels; random inputs up to 6000 bytes of several textures, long runs (RLE1 counts, the 255+4 cap), 1-3 symbol alphabets, shuffled Fibonacci frequency profiles that force 20-bit length limiting, random Write splits incl. empty writes; ~100 KB random inputs with a run of 1-300 equal bytes placed within 310 bytes of the level-1 block limit; 150 KB incompressible inputs at level 1 (full blocks of exactly 100000 symbols); run-free inputs that stop 0-5 bytes short of the block limit followed by a run of 2-12 equal bytes, written in one call and with a Write boundary at every position of the run; runs of 255-300 equal bytes whose first 255 bytes end at the block limit; periodic inputs (\"ab\" x 70000 ...) whose BWT holds runs of >= 65536 equal bytes. The emitted bytes are compared with the Lean model (rotation-sort BWT) and decoded by libbzip2, compress/bzip2 and this package's Reader; a second, differently split run must emit identical bytes. Distinct by input",
		Gen:  genBzw,
		Exec: execBzw,
	})
}
