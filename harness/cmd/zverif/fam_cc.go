package main

// Family "cc" (C19): independent Readers and Writers used from different
// goroutines at the same time. Each job is run alone first; then many
// goroutines run random jobs concurrently, each on instances of its own, and
// every result must equal the solo result. The binary used for this family is
// built with -race, so an unsynchronised access to shared memory is reported by
// the race detector (bin/check reads its log).

import (
	"bytes"
	"crypto/sha256"
	"fmt"
	"io"
	"strconv"
	"strings"
	"sync"

	"github.com/dsnet/compress/brotli"
	"github.com/dsnet/compress/bzip2"
	"github.com/dsnet/compress/flate"
	cbrotli "github.com/dsnet/compress/internal/cgo/brotli"
	"github.com/dsnet/compress/xflate"

	stdflate "compress/flate"
)

type ccJob struct {
	name string
	run  func() string
}

func sum(b []byte, err error) string {
	h := sha256.Sum256(b)
	return fmt.Sprintf("%x:%d:%s", h[:6], len(b), errClass(err))
}

func ccJobs(r *Rand, n int) []ccJob {
	var jobs []ccJob
	mk := func(i int) []byte {
		d := r.Bytes(200 + r.Intn(6000))
		if i%2 == 0 {
			for j := range d {
				d[j] = "abcdefgh \n"[int(d[j])%10]
			}
		}
		return d
	}
	words := strings.Fields("the of and to in is that for it was as with be by on not he this are or his from at which but have an had they you were their one all we can her has there been if more when will would who so no time some could them only other new two may then do first any my now such like our over man me even most made after also did many before must through back years where much your way well down should because each just those people how too little state good very make world still own see men work long get here between both life being under never day same another know while last might us great old year off come since against go came right used take three")
	for i := 0; i < n; i++ {
		d := mk(i)
		if i%3 == 1 { // English-like text: brotli quality 9+ then refers to the static dictionary
			var b []byte
			for len(b) < 9000+r.Intn(4000) {
				w := words[r.Intn(len(words))]
				if r.Intn(6) == 0 {
					w = strings.ToUpper(w[:1]) + w[1:]
				}
				b = append(b, w...)
				b = append(b, []string{" ", ", ", ". ", "\n"}[r.Intn(4)]...)
			}
			d = b
		}
		var fl, br, bz bytes.Buffer
		fw, _ := stdflate.NewWriter(&fl, 1+i%9)
		fw.Write(d)
		fw.Close()
		bq := i % 12
		if i%3 == 1 {
			bq = 9 + i%3
		}
		bw := cbrotli.NewWriter(&br, bq)
		bw.Write(d)
		bw.Close()
		zw, _ := bzip2.NewWriter(&bz, &bzip2.WriterConfig{Level: 1 + i%9})
		zw.Write(d)
		zw.Close()
		flb, brb, bzb := fl.Bytes(), br.Bytes(), bz.Bytes()
		if i%5 == 4 { // a corrupt one: error paths run concurrently too
			flb = append([]byte{}, flb...)
			flb[len(flb)/2] ^= 0x10
		}
		lvl := 1 + i%9
		jobs = append(jobs,
			ccJob{"flate-read", func() string {
				zr, _ := flate.NewReader(bytes.NewReader(flb), nil)
				b, err := io.ReadAll(zr)
				return sum(b, err)
			}},
			ccJob{"brotli-read", func() string {
				zr, _ := brotli.NewReader(bytes.NewReader(brb), nil)
				b, err := io.ReadAll(zr)
				return sum(b, err)
			}},
			ccJob{"bzip2-read", func() string {
				zr, _ := bzip2.NewReader(bytes.NewReader(bzb), nil)
				b, err := io.ReadAll(zr)
				return sum(b, err)
			}},
			ccJob{"bzip2-write", func() string {
				var o bytes.Buffer
				zw, _ := bzip2.NewWriter(&o, &bzip2.WriterConfig{Level: lvl})
				zw.Write(d[:len(d)/2])
				zw.Write(d[len(d)/2:])
				err := zw.Close()
				return sum(o.Bytes(), err)
			}},
			ccJob{"xflate-write-read", func() string {
				var o bytes.Buffer
				xw, _ := xflate.NewWriter(&o, &xflate.WriterConfig{Level: lvl, ChunkSize: int64(100 + lvl*37)})
				xw.Write(d)
				xw.Flush(xflate.FlushMode(lvl % 3))
				xw.Write(d[:50])
				err := xw.Close()
				if err != nil {
					return sum(o.Bytes(), err)
				}
				xr, err := xflate.NewReader(bytes.NewReader(o.Bytes()), nil)
				if err != nil {
					return sum(o.Bytes(), err)
				}
				xr.Seek(int64(len(d)/3), io.SeekStart)
				b, err := io.ReadAll(xr)
				return sum(o.Bytes(), nil) + "/" + sum(b, err)
			}},
			ccJob{"meta", func() string {
				var o bytes.Buffer
				mw := xflate.VerifNewMetaWriter(&o)
				mw.FinalMode = 1
				mw.Write(d[:min(len(d), 300)])
				err := mw.Close()
				mr := xflate.VerifNewMetaReader(bytes.NewReader(o.Bytes()))
				b, err2 := io.ReadAll(mr)
				return sum(o.Bytes(), err) + "/" + sum(b, err2)
			}},
		)
	}
	// static-dictionary references to the same word under different transforms, identity first: a
	// transform that rewrites the shared dictionary in place changes what the identity job gives later
	dict := brotli.VerifStaticDict()
	off := 0
	for L := 4; L <= 24; L++ {
		nw := 1 << brNDBits[L]
		if L == 4 || L == 7 || L == 12 {
			for q := 0; q < 2; q++ {
				idx := r.Intn(nw)
				word := dict[off+idx*L : off+(idx+1)*L]
				for _, t := range []int{0, 44, 9, 68, 4, 0} {
					n := len(brotli.VerifTransformWord(word, t))
					if n == 0 {
						continue
					}
					s := dictStream(L, idx, t, n)
					jobs = append(jobs, ccJob{fmt.Sprintf("brotli-dict-L%d-t%d", L, t), func() string {
						zr, _ := brotli.NewReader(bytes.NewReader(s), nil)
						b, err := io.ReadAll(zr)
						return sum(b, err)
					}})
				}
			}
		}
		off += nw * L
	}
	return jobs
}

func execCC(o *Out, id, line string) {
	_, kv := parseLine(line)
	seed, _ := strconv.ParseUint(kv["seed"], 10, 64)
	nj, _ := strconv.Atoi(kv["jobs"])
	ng, _ := strconv.Atoi(kv["goroutines"])
	per, _ := strconv.Atoi(kv["per"])
	r := NewRand(seed)
	jobs := ccJobs(r, nj)
	solo := make([]string, len(jobs))
	for i, j := range jobs {
		solo[i] = j.run()
		o.Count("solo-" + j.name)
	}
	// the same job twice alone must agree with itself (determinism is a precondition)
	for i, j := range jobs {
		if got := j.run(); got != solo[i] {
			o.Violate("C14", fmt.Sprintf("job %s is not deterministic when run alone: %s vs %s", j.name, got, solo[i]), "solo-nondeterministic", line)
			// between the two runs only other, independent instances were used
			o.Violate("C19", fmt.Sprintf("job %s gives %s, but gave %s before other independent instances had run", j.name, got, solo[i]), "sequential-interference", line)
			return
		}
	}
	type res struct {
		job int
		got string
	}
	out := make([][]res, ng)
	plan := make([][]int, ng)
	for g := 0; g < ng; g++ {
		for k := 0; k < per; k++ {
			plan[g] = append(plan[g], r.Intn(len(jobs)))
		}
	}
	var wg sync.WaitGroup
	start := make(chan struct{})
	for g := 0; g < ng; g++ {
		wg.Add(1)
		go func(g int) {
			defer wg.Done()
			<-start
			for _, ji := range plan[g] {
				var got string
				_, p := catch(func() { got = jobs[ji].run() })
				if p != nil {
					got = fmt.Sprintf("panic:%v", p)
				}
				out[g] = append(out[g], res{ji, got})
			}
		}(g)
	}
	close(start)
	wg.Wait()
	bad := 0
	for g := range out {
		for _, x := range out[g] {
			o.Count("concurrent-" + jobs[x.job].name)
			if x.got != solo[x.job] && bad < 5 {
				bad++
				o.Violate("C19", fmt.Sprintf("job %s run concurrently gave %s, alone %s", jobs[x.job].name, x.got, solo[x.job]), "concurrent-differs", line)
			}
		}
	}
	o.Emit(id, line, "", fmt.Sprintf("ok:%d", bad), kv["seed"])
}

func genCC(r *Rand, tier string, emit func(string)) {
	rounds, jobs, gor, per := 6, 8, 16, 12
	if tier == "thorough" {
		rounds, jobs, gor, per = 40, 12, 32, 30
	}
	for i := 0; i < rounds; i++ {
		emit(fmt.Sprintf("cc seed=%d jobs=%d goroutines=%d per=%d", r.U64()>>1, jobs, gor, per))
	}
}

func init() {
	register(&Family{
		Name: "cc",
		Rule: "rounds of 16 (quick) / 32 (thorough) goroutines, each running 12 / 30 randomly chosen jobs on instances of its own (flate, brotli, bzip2 Readers incl. corrupt inputs; bzip2, xflate, meta Writers; xflate Reader with Seek) out of 48 / 72 jobs per round, all started together; each result is compared with the result of the same job run alone; the binary is built with -race. Oracle-only family. Non-trivial = a round; distinct = distinct round seeds",
		Gen:  genCC,
		Exec: execCC,
	})
}
