package main

// synthBrotliCtx: Brotli streams that exercise what synthBrotli leaves out - several prefix
// trees per category selected through CONTEXT MAPS (literal context modes, distance context by
// copy length), many block types (up to 256, so that type*64 and type*4 exceed a byte), block
// switches inside insert runs, context maps with zero-run codes and the inverse move-to-front
// bit.  The synthesiser does not track the decoded bytes: every tree of a category has the same
// shape (all code words 1 bit, or all 2 bits) but its own symbol set, and the literal / distance
// code words are random bits - whichever tree the context selects, the same number of bits is
// consumed, so the stream stays well formed, while a decoder that selects a wrong tree (stale
// context mode, wrapped index into the context map, wrong context id) produces different bytes.
// Distances are direct codes 1..15 or "last distance" after an uncompressed meta-block of 24
// bytes, so every copy is valid.  What the stream decodes to is decided by libbrotlidec.

func putNTrees(w *bitW, n int) {
	if n == 1 {
		w.bit(0)
		return
	}
	x := n - 1
	k := uint(0)
	for x>>(k+1) > 0 {
		k++
	}
	w.bit(1)
	w.bits(uint64(k), 3)
	w.bits(uint64(x-(1<<k)), k)
}

// putContextMap writes a context map of `size` entries over `ntrees` trees.
func putContextMap(w *bitW, r *Rand, size, ntrees int) {
	rlemax := 0
	if r.Intn(3) == 0 {
		rlemax = 1 + r.Intn(3)
	}
	if rlemax == 0 {
		w.bit(0)
	} else {
		w.bit(1)
		w.bits(uint64(rlemax-1), 4)
	}
	alpha := ntrees + rlemax
	// up to four symbols of the alphabet: tree indices (shifted by rlemax when non-zero) and run codes
	var pool []int
	for v := 0; v < ntrees; v++ {
		if v == 0 {
			pool = append(pool, 0)
		} else {
			pool = append(pool, v+rlemax)
		}
	}
	for s := 1; s <= rlemax; s++ {
		pool = append(pool, s)
	}
	syms := pickDistinct(r, min(len(pool), 2+r.Intn(3)), pool)
	flat := true
	ps := writeSimpleFlat(w, r, alpha, syms, &flat)
	for i := 0; i < size; {
		s := syms[r.Intn(len(syms))]
		if s >= 1 && s <= rlemax {
			ex := r.Intn(1 << uint(s))
			run := (1 << uint(s)) + ex
			if i+run > size {
				// a run past the end is invalid: take a value symbol instead when there is one
				ok := false
				for _, t := range syms {
					if t == 0 || t > rlemax {
						s, ok = t, true
						break
					}
				}
				if !ok {
					ps.put(w, s)
					w.bits(uint64(ex), uint(s))
					i += run
					continue
				}
			} else {
				ps.put(w, s)
				w.bits(uint64(ex), uint(s))
				i += run
				continue
			}
		}
		ps.put(w, s)
		i++
	}
	w.bit(uint(r.Intn(2))) // IMTF
}

// writeSimpleFlat is writeSimple that may force the flat 4-symbol shape (2,2,2,2).
func writeSimpleFlat(w *bitW, r *Rand, alpha int, syms []int, flat *bool) *brSimple {
	if len(syms) != 4 {
		return writeSimple(w, r, alpha, syms)
	}
	w.bits(1, 2)
	w.bits(3, 2)
	ab := alphaBits(alpha)
	for _, s := range syms {
		w.bits(uint64(s), ab)
	}
	lens := []int{2, 2, 2, 2}
	if flat != nil && *flat {
		w.bit(0)
	} else if r.Bool() {
		w.bit(1)
		lens = []int{1, 2, 3, 3}
	} else {
		w.bit(0)
	}
	ps := &brSimple{syms: syms, lens: lens, code: map[int][2]uint32{}}
	full := make([]int, alpha)
	// tree-select 1 assigns the lengths 1,2,3,3 in the order the symbols were listed (the last two sorted)
	for i, s := range syms {
		full[s] = lens[i]
	}
	cc := canonCodes(full)
	for i, s := range syms {
		ps.code[s] = [2]uint32{cc[s], uint32(lens[i])}
	}
	return ps
}

func synthBrotliCtx(r *Rand) []byte {
	w := &bitW{}
	w.bit(0) // WBITS = 16
	// an uncompressed meta-block of 24 bytes so that distances up to 16 are valid from the start
	w.bit(0)
	w.bits(0, 2)
	w.bits(24-1, 16)
	w.bit(1)
	w.align()
	for i := 0; i < 24; i++ {
		w.bits(uint64("abcdefgh ABC\n\t\x00\xff\xe0\xa4"[r.Intn(18)]), 8)
	}
	nmeta := 1 + r.Intn(2)
	for m := 0; m < nmeta; m++ {
		last := m == nmeta-1
		hw, dw := &bitW{}, &bitW{}
		many := func() int {
			switch r.Intn(6) {
			case 0:
				return 1
			case 1:
				return 65 + r.Intn(192) // 65..256
			case 2:
				return 256
			default:
				return 2 + r.Intn(4)
			}
		}
		catL, catI, catD := &brCat{n: many()}, &brCat{n: 1 + r.Intn(3)}, &brCat{n: many()}
		for _, c := range []*brCat{catL, catI, catD} {
			c.header(hw, r)
		}
		hw.bits(0, 2)  // NPOSTFIX = 0
		hw.bits(15, 4) // NDIRECT = 15: symbols 16..30 are the distances 1..15
		for i := 0; i < catL.n; i++ {
			hw.bits(uint64(r.Intn(4)), 2)
		}
		ntL, ntD := 1+r.Intn(4), 1+r.Intn(4)
		if r.Intn(8) == 0 {
			ntL = 5 + r.Intn(60)
		}
		putNTrees(hw, ntL)
		if ntL >= 2 {
			putContextMap(hw, r, 64*catL.n, ntL)
		}
		putNTrees(hw, ntD)
		if ntD >= 2 {
			putContextMap(hw, r, 4*catD.n, ntD)
		}
		// literal trees: same shape, own symbols
		width := 1 + r.Intn(2) // bits per literal / distance code word
		nsym := 1 << uint(width)
		litPool := []int{'a', 'b', 'c', 'd', 'e', ' ', 'X', 'Y', 'Z', '0', '1', 0xe0, 0xa4, 0, 255, '\n', 'q', 'r', 's', 't'}
		flat := true
		for t := 0; t < ntL; t++ {
			writeSimpleFlat(hw, r, 256, pickDistinct(r, nsym, litPool), &flat)
		}
		// insert-and-copy codes: one set of commands for every block type
		var cmds []int
		for len(cmds) < 2+r.Intn(3) {
			cell := []int{0, 2, 2, 2}[r.Intn(4)]
			c := cell<<6 | r.Intn(6)<<3 | r.Intn(8)
			dup := false
			for _, x := range cmds {
				dup = dup || x == c
			}
			if !dup {
				cmds = append(cmds, c)
			}
		}
		pcs := make([]*brSimple, catI.n)
		for i := range pcs {
			pcs[i] = writeSimple(hw, r, 704, cmds)
		}
		distPool := []int{0, 16, 17, 18, 19, 20, 21, 22, 23, 24, 25, 26, 27, 28, 29, 30}
		for t := 0; t < ntD; t++ {
			writeSimpleFlat(hw, r, 16+15+48, pickDistinct(r, nsym, distPool), &flat)
		}
		mlen := 0
		ncmd := 2 + r.Intn(12)
		for q := 0; q < ncmd; q++ {
			c := cmds[r.Intn(len(cmds))]
			cell := brCells[c>>6]
			ic, cc := cell[0]+(c>>3)&7, cell[1]+c&7
			catI.tick(dw, r)
			pcs[catI.bt].put(dw, c)
			ex := r.Intn(1 << brInsExtra[ic])
			dw.bits(uint64(ex), brInsExtra[ic])
			ins := brInsBase[ic] + ex
			ex = r.Intn(1 << brCopyExtra[cc])
			dw.bits(uint64(ex), brCopyExtra[cc])
			cp := brCopyBase[cc] + ex
			for i := 0; i < ins; i++ {
				catL.tick(dw, r)
				dw.bits(r.U64(), uint(width))
			}
			mlen += ins
			if q == ncmd-1 && ins > 0 && r.Bool() {
				break
			}
			if cell[2] == 0 {
				catD.tick(dw, r)
				dw.bits(r.U64(), uint(width))
			}
			mlen += cp
		}
		if mlen == 0 {
			mlen = 1
		}
		if last {
			w.bit(1)
			w.bit(0)
		} else {
			w.bit(0)
		}
		w.bits(0, 2)
		w.bits(uint64(mlen-1), 16)
		if !last {
			w.bit(0)
		}
		for i := uint(0); i < hw.nbit; i++ {
			w.bit(uint(hw.buf[i/8]>>(i%8)) & 1)
		}
		for i := uint(0); i < dw.nbit; i++ {
			w.bit(uint(dw.buf[i/8]>>(i%8)) & 1)
		}
	}
	w.align()
	return w.buf
}
