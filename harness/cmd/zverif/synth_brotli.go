package main

// An independent synthesiser of Brotli streams (RFC 7932) for family brd: it
// writes streams the reference encoder never emits - arbitrary ring-buffer
// distance codes, explicit codes for a repeated distance, one-symbol (zero-bit)
// prefix codes, several meta-blocks with different codes, uncompressed and
// metadata meta-blocks, static-dictionary references for chosen (length, word,
// transform), every WBITS / NPOSTFIX / NDIRECT. Only simple prefix codes
// (1-4 symbols), one block type and one tree per category are used. The
// synthesiser tracks the output length so that most streams are valid; what they
// decode to is decided by libbrotlidec at run time.

var brInsBase = []int{0, 1, 2, 3, 4, 5, 6, 8, 10, 14, 18, 26, 34, 50, 66, 98, 130, 194, 322, 578, 1090, 2114, 6210, 22594}
var brInsExtra = []uint{0, 0, 0, 0, 0, 0, 1, 1, 2, 2, 3, 3, 4, 4, 5, 5, 6, 7, 8, 9, 10, 12, 14, 24}
var brCopyBase = []int{2, 3, 4, 5, 6, 7, 8, 9, 10, 12, 14, 18, 22, 30, 38, 54, 70, 102, 134, 198, 326, 582, 1094, 2118}
var brCopyExtra = []uint{0, 0, 0, 0, 0, 0, 0, 0, 1, 1, 2, 2, 3, 3, 4, 4, 5, 5, 6, 7, 8, 9, 10, 24}
var brNDBits = []uint{0, 0, 0, 0, 10, 10, 11, 11, 10, 10, 10, 10, 10, 9, 9, 8, 7, 7, 8, 7, 7, 6, 6, 5, 5}

// cell -> (insert code base, copy code base, implicit distance zero)
var brCells = [][3]int{{0, 0, 1}, {0, 8, 1}, {0, 0, 0}, {0, 8, 0}, {8, 0, 0}, {8, 8, 0}, {0, 16, 0}, {16, 0, 0}, {8, 16, 0}, {16, 8, 0}, {16, 16, 0}}

type brSimple struct {
	syms []int
	lens []int
	code map[int][2]uint32 // sym -> (value, len)
}

func alphaBits(n int) uint {
	b := uint(0)
	for (n-1)>>b > 0 {
		b++
	}
	return b
}

// writeSimple emits a simple prefix code over `alpha` symbols for the given distinct symbols.
func writeSimple(w *bitW, r *Rand, alpha int, syms []int) *brSimple {
	n := len(syms)
	w.bits(1, 2) // HSKIP = 1: simple
	w.bits(uint64(n-1), 2)
	ab := alphaBits(alpha)
	for _, s := range syms {
		w.bits(uint64(s), ab)
	}
	lens := []int{0}
	switch n {
	case 2:
		lens = []int{1, 1}
	case 3:
		lens = []int{1, 2, 2}
	case 4:
		if r.Bool() {
			w.bit(1)
			lens = []int{1, 2, 3, 3}
		} else {
			w.bit(0)
			lens = []int{2, 2, 2, 2}
		}
	}
	ps := &brSimple{syms: syms, lens: lens, code: map[int][2]uint32{}}
	full := make([]int, alpha)
	for i, s := range syms {
		if s < alpha {
			full[s] = lens[i]
		}
	}
	cc := canonCodes(full)
	for i, s := range syms {
		if s < alpha {
			ps.code[s] = [2]uint32{cc[s], uint32(lens[i])}
		}
	}
	return ps
}

func (ps *brSimple) put(w *bitW, s int) {
	c := ps.code[s]
	w.code(c[0], uint(c[1]))
}

var brBlkBase = []int{1, 5, 9, 13, 17, 25, 33, 41, 49, 65, 81, 97, 113, 145, 177, 209, 241, 305, 369, 497, 753, 1265, 2289, 4385, 8481, 16673}
var brBlkExtra = []uint{2, 2, 2, 2, 3, 3, 3, 3, 4, 4, 4, 4, 5, 5, 5, 5, 6, 6, 7, 8, 9, 10, 11, 12, 13, 24}

// brCat is one block category (literals, commands or distances) with 1..4 block types.
type brCat struct {
	n, bt, prev, left int
	types, counts     *brSimple
	tsyms, csyms      []int
}

func (c *brCat) header(w *bitW, r *Rand) {
	c.bt, c.prev = 0, 1
	if c.n < 2 {
		w.bit(0)
		return
	}
	x := c.n - 1 // NBLTYPES = (1 << k) + 1 + extra
	k := uint(0)
	for x>>(k+1) > 0 {
		k++
	}
	w.bit(1)
	w.bits(uint64(k), 3)
	w.bits(uint64(x-(1<<k)), k)
	var pool []int
	for i := 0; i < c.n+2; i++ {
		pool = append(pool, i)
	}
	c.tsyms = pickDistinct(r, 1+r.Intn(4), pool)
	if r.Intn(3) != 0 { // make "previous type" (code 0) available often
		has := false
		for _, t := range c.tsyms {
			has = has || t == 0
		}
		if !has {
			c.tsyms[0] = 0
		}
	}
	c.types = writeSimple(w, r, c.n+2, c.tsyms)
	c.csyms = pickDistinct(r, 1+r.Intn(3), []int{0, 0, 1, 2, 3, 4, 8})
	c.csyms = dedup(c.csyms)
	c.counts = writeSimple(w, r, 26, c.csyms)
	c.left = c.readCount(w, r)
}

func dedup(a []int) []int {
	var out []int
	for _, x := range a {
		dup := false
		for _, y := range out {
			dup = dup || x == y
		}
		if !dup {
			out = append(out, x)
		}
	}
	return out
}

func (c *brCat) readCount(w *bitW, r *Rand) int {
	cs := c.csyms[r.Intn(len(c.csyms))]
	c.counts.put(w, cs)
	ex := r.Intn(1 << brBlkExtra[cs])
	w.bits(uint64(ex), brBlkExtra[cs])
	return brBlkBase[cs] + ex
}

// tick is called before every element of the category is coded.
func (c *brCat) tick(w *bitW, r *Rand) {
	if c.n < 2 {
		return
	}
	if c.left == 0 {
		t := c.tsyms[r.Intn(len(c.tsyms))]
		c.types.put(w, t)
		nb := 0
		switch t {
		case 0:
			nb = c.prev
		case 1:
			nb = c.bt + 1
		default:
			nb = t - 2
		}
		if nb >= c.n {
			nb -= c.n
		}
		c.prev, c.bt = c.bt, nb
		c.left = c.readCount(w, r)
	}
	c.left--
}

func pickDistinct(r *Rand, n int, pool []int) []int {
	p := append([]int(nil), pool...)
	for i := range p {
		j := i + r.Intn(len(p)-i)
		p[i], p[j] = p[j], p[i]
	}
	if n > len(p) {
		n = len(p)
	}
	return p[:n]
}

func synthBrotli(r *Rand, k int) []byte {
	w := &bitW{}
	pert := func() bool { return r.Intn(60) == 0 }
	// WBITS
	wbits := []int{16, 18, 19, 20, 21, 22, 23, 24, 17, 10, 11, 12, 13, 14, 15}[k%15]
	switch {
	case wbits == 16:
		w.bit(0)
	case wbits >= 18:
		w.bit(1)
		w.bits(uint64(wbits-17), 3)
	case wbits == 17:
		w.bit(1)
		w.bits(0, 3)
		w.bits(0, 3)
	default:
		w.bit(1)
		w.bits(0, 3)
		w.bits(uint64(wbits-8), 3)
	}
	window := (1 << uint(wbits)) - 16
	produced := 0
	ring := [4]int{4, 11, 15, 16}
	unknownLen := false
	_ = unknownLen
	nmeta := 1 + r.Intn(3)
	for m := 0; m < nmeta; m++ {
		last := m == nmeta-1
		kind := r.Intn(10)
		if last {
			w.bit(1)
			if kind == 0 || pert() {
				w.bit(1) // ISLASTEMPTY
				break
			}
			w.bit(0)
		} else {
			w.bit(0)
		}
		if kind == 1 { // metadata meta-block (also legal as the last one)
			w.bits(3, 2)
			w.bit(0)
			n := r.Intn(3)
			if n == 0 {
				w.bits(0, 2)
			} else {
				skip := 1 + r.Intn(20)
				w.bits(1, 2)
				w.bits(uint64(skip-1), 8)
				w.align()
				for i := 0; i < skip; i++ {
					w.bits(uint64(r.Intn(256)), 8)
				}
			}
			if n == 0 {
				w.align()
			}
			if last {
				break
			}
			continue
		}
		if !last && kind == 2 { // uncompressed
			mlen := 1 + r.Intn(40)
			w.bits(0, 2) // MNIBBLES = 4
			w.bits(uint64(mlen-1), 16)
			w.bit(1)
			w.align()
			for i := 0; i < mlen; i++ {
				w.bits(uint64("ab \n"[r.Intn(4)]), 8)
			}
			produced += mlen
			continue
		}
		// compressed meta-block: the commands are generated first, MLEN is their total
		hw, dw := &bitW{}, &bitW{}
		catL, catI, catD := &brCat{n: 1}, &brCat{n: 1}, &brCat{n: 1}
		for _, c := range []*brCat{catL, catI, catD} {
			if r.Intn(3) == 0 {
				c.n = 2 + r.Intn(3)
			}
			c.header(hw, r)
		}
		npostfix := r.Intn(4)
		ndirect := r.Intn(16)
		hw.bits(uint64(npostfix), 2)
		hw.bits(uint64(ndirect), 4)
		ndirect <<= uint(npostfix)
		for i := 0; i < catL.n; i++ {
			hw.bits(uint64(r.Intn(4)), 2) // context mode per literal block type
		}
		hw.bit(0) // NTREESL = 1
		hw.bit(0)                    // NTREESD = 1
		lits := pickDistinct(r, 1+r.Intn(4), []int{'a', 'b', ' ', 'e', 0xe0, 0xa4, 0, 255, 'T'})
		pl := writeSimple(hw, r, 256, lits)
		var cmds []int
		for len(cmds) < 1+r.Intn(4) {
			c := r.Intn(11)<<6 | r.Intn(8)<<3 | r.Intn(8)
			if r.Intn(3) != 0 {
				c = []int{0, 1, 2, 3, 6}[r.Intn(5)]<<6 | r.Intn(6)<<3 | r.Intn(8) // short inserts
			}
			dup := false
			for _, x := range cmds {
				dup = dup || x == c
			}
			if !dup {
				cmds = append(cmds, c)
			}
		}
		pcs := make([]*brSimple, catI.n)
		for i := range pcs {
			pcs[i] = writeSimple(hw, r, 704, cmds)
		}
		dalpha := 16 + ndirect + (48 << uint(npostfix))
		var dpool []int
		for i := 0; i < 16; i++ {
			dpool = append(dpool, i)
		}
		for i := 0; i < 6; i++ {
			dpool = append(dpool, 16+r.Intn(dalpha-16))
		}
		dsyms := pickDistinct(r, 1+r.Intn(4), dpool)
		pd := writeSimple(hw, r, dalpha, dsyms)
		mlen := 0
		ncmd := 1 + r.Intn(10)
		for q := 0; q < ncmd && mlen < 40000; q++ {
			c := cmds[r.Intn(len(cmds))]
			cell := brCells[c>>6]
			ic, cc := cell[0]+(c>>3)&7, cell[1]+c&7
			catI.tick(dw, r)
			pcs[catI.bt].put(dw, c)
			ex := r.Intn(1 << min(brInsExtra[ic], 6))
			dw.bits(uint64(ex), brInsExtra[ic])
			ins := brInsBase[ic] + ex
			ex = r.Intn(1 << min(brCopyExtra[cc], 5))
			dw.bits(uint64(ex), brCopyExtra[cc])
			cp := brCopyBase[cc] + ex
			for i := 0; i < ins; i++ {
				catL.tick(dw, r)
				pl.put(dw, lits[r.Intn(len(lits))])
			}
			produced += ins
			mlen += ins
			if q == ncmd-1 && ins > 0 && r.Bool() {
				break // the meta-block ends with the insert; the copy is dropped
			}
			maxd := min(window, produced)
			okDist := func(dist int) bool {
				if dist <= 0 {
					return false
				}
				if dist <= maxd {
					return true
				}
				return cp >= 4 && cp <= 24 && (dist-maxd-1)>>brNDBits[cp] < 121
			}
			ringDist := func(d int) int {
				switch {
				case d < 4:
					return ring[d]
				case d < 10:
					return ring[0] + []int{-1, 1, -2, 2, -3, 3}[d-4]
				default:
					return ring[1] + []int{-1, 1, -2, 2, -3, 3}[d-10]
				}
			}
			used := ring[0]
			if cell[2] == 0 {
				type cand struct{ sym, extra, dist int }
				var cands []cand
				for _, d := range dsyms {
					switch {
					case d < 16:
						cands = append(cands, cand{d, 0, ringDist(d)})
					case d < 16+ndirect:
						cands = append(cands, cand{d, 0, d - 15})
					default:
						nb := uint(1 + (d-ndirect-16)>>uint(npostfix+1))
						hcode := (d - ndirect - 16) >> uint(npostfix)
						off := ((2 + hcode&1) << nb) - 4
						lcode := (d - ndirect - 16) & (1<<uint(npostfix) - 1)
						x := r.Intn(1 << min(nb, 20))
						if r.Bool() && cp >= 4 && cp <= 24 { // aim at the static dictionary
							want := maxd + 1 + r.Intn(121<<brNDBits[cp])
							if y := (want-1-ndirect-lcode)>>uint(npostfix) - off; y >= 0 && y < 1<<nb {
								x = y
							}
						}
						cands = append(cands, cand{d, x, ((off+x)<<uint(npostfix)) + lcode + ndirect + 1})
					}
				}
				ch := cands[r.Intn(len(cands))]
				if !okDist(ch.dist) && !pert() {
					for _, c2 := range cands {
						if okDist(c2.dist) {
							ch = c2
							break
						}
					}
				}
				catD.tick(dw, r)
				pd.put(dw, ch.sym)
				if ch.sym >= 16+ndirect {
					dw.bits(uint64(ch.extra), uint(1+(ch.sym-ndirect-16)>>uint(npostfix+1)))
				}
				used = ch.dist
				if ch.sym != 0 && ch.dist <= maxd && ch.dist > 0 {
					ring = [4]int{ch.dist, ring[0], ring[1], ring[2]}
				}
			}
			if used > maxd && cp >= 4 && cp <= 24 {
				// dictionary word: the transform may change the length; the reference decides
				produced += cp
				mlen += cp
				unknownLen = true
			} else {
				produced += cp
				mlen += cp
			}
		}
		if mlen == 0 {
			mlen = 1
		}
		if pert() {
			mlen += r.Intn(3) - 1
		}
		if mlen <= 1<<16 {
			w.bits(0, 2)
			w.bits(uint64(mlen-1), 16)
		} else {
			w.bits(1, 2)
			w.bits(uint64(mlen-1), 20)
		}
		if !last {
			w.bit(0) // ISUNCOMPRESSED
		}
		for i := uint(0); i < hw.nbit; i++ {
			w.bit(uint(hw.buf[i/8]>>(i%8)) & 1)
		}
		for i := uint(0); i < dw.nbit; i++ {
			w.bit(uint(dw.buf[i/8]>>(i%8)) & 1)
		}
		if last {
			break
		}
	}
	w.align()
	b := w.buf
	switch r.Intn(25) {
	case 0:
		b = append(b, r.Bytes(1+r.Intn(3))...)
	case 1:
		if len(b) > 1 {
			b = b[:len(b)-1]
		}
	case 2:
		if len(b) > 0 {
			b[r.Intn(len(b))] ^= 1 << uint(r.Intn(8))
		}
	}
	return b
}

// dictStream builds a one-command stream whose whole output is one static
// dictionary word of length L (index idx) under transform t; mlen is the length
// of the transformed word.
func dictStream(L, idx, t, mlen int) []byte {
	w := &bitW{}
	w.bit(0) // WBITS 16
	w.bit(1) // ISLAST
	w.bit(0)
	w.bits(0, 2)
	w.bits(uint64(mlen-1), 16)
	w.bit(0)
	w.bit(0)
	w.bit(0)
	w.bits(0, 2) // NPOSTFIX
	w.bits(0, 4) // NDIRECT
	w.bits(0, 2)
	w.bit(0)
	w.bit(0)
	r := NewRand(1)
	writeSimple(w, r, 256, []int{'x'})
	// copy length code for L
	cc, ex := 0, 0
	for c := 0; c < 24; c++ {
		if brCopyBase[c] <= L && L < brCopyBase[c]+(1<<brCopyExtra[c]) {
			cc, ex = c, L-brCopyBase[c]
		}
	}
	cell := 2
	if cc >= 8 {
		cell = 3
	}
	cmd := cell<<6 | 0<<3 | cc&7
	pc := writeSimple(w, r, 704, []int{cmd})
	dist := 1 + idx + t<<brNDBits[L] // max backward distance is 0: nothing has been produced
	dsym, dex, nbits := 0, 0, uint(0)
	for nb := uint(1); nb <= 24; nb++ {
		for h := 0; h < 2; h++ {
			off := ((2 + h) << nb) - 4
			if off <= dist-1 && dist-1 < off+(1<<nb) {
				dsym, dex, nbits = 16+2*int(nb-1)+h, dist-1-off, nb
			}
		}
	}
	pd := writeSimple(w, r, 64, []int{dsym})
	pc.put(w, cmd)
	w.bits(uint64(ex), brCopyExtra[cc])
	pd.put(w, dsym)
	w.bits(uint64(dex), nbits)
	w.align()
	return w.buf
}
