package main

// Probe at the excluded point of the size cap of theorem C02_refines_spec: one compressed
// meta-block with a single insert-and-copy block type and MORE than 2^24 commands.
// The Lean specification gives a single-type block category a count of 2^24 and fails when it is
// used up; brotli.Reader (typeLen = -1) does not count. What does libbrotlidec do?
//
// Stream: WBITS = 24; one last meta-block, MLEN = 2^24; one block type per category; literal code
// = the one symbol 'x' (zero bits); insert-and-copy code = two symbols (one bit): B = insert 0 /
// copy 4, A = insert 1 / copy 4, both with an explicit distance; distance code = all 64 symbols
// with 6 bits. Every copy refers to the static dictionary with transform 34 (OmitFirst4) on a
// four-byte word: the empty string. Commands: B (no output), then 2^24 times A (one literal each;
// the last A ends the meta-block with its literal). 2^24 + 1 commands, 2^24 bytes of output.

import (
	"bytes"
	"fmt"
	"io"
	"time"

	"github.com/dsnet/compress/brotli"
	cbrotli "github.com/dsnet/compress/internal/cgo/brotli"
)

func probeCapStream(ncmdA int) []byte {
	w := &bitW{}
	w.bit(1)
	w.bits(7, 3) // WBITS = 24
	w.bit(1)     // ISLAST
	w.bit(0)     // ISLASTEMPTY
	nib := uint(4)
	for (ncmdA-1)>>(4*nib) > 0 {
		nib++
	}
	w.bits(uint64(nib-4), 2) // MNIBBLES
	w.bits(uint64(ncmdA-1), 4*nib)
	w.bit(0) // NBLTYPESL = 1
	w.bit(0) // NBLTYPESI = 1
	w.bit(0) // NBLTYPESD = 1
	w.bits(0, 2)
	w.bits(0, 4)
	w.bits(0, 2) // context mode
	w.bit(0)     // NTREESL = 1
	w.bit(0)     // NTREESD = 1
	r := NewRand(1)
	writeSimple(w, r, 256, []int{'x'})
	cmdA, cmdB := 2<<6|1<<3|2, 2<<6|0<<3|2
	pc := writeSimple(w, r, 704, []int{cmdB, cmdA})
	var items []clItem
	for i := 0; i < 64; i++ {
		items = append(items, clItem{6, 0})
	}
	pd := writeComplex(w, items, 0)
	window := 1<<24 - 16
	putDist := func(out int) {
		hist := min(out, window)
		dist := hist + 1 + 34<<10
		dsym, dex, nbits := 0, 0, uint(0)
		for nb := uint(1); nb <= 24; nb++ {
			for h := 0; h < 2; h++ {
				off := ((2 + h) << nb) - 4
				if off <= dist-1 && dist-1 < off+(1<<nb) {
					dsym, dex, nbits = 16+2*int(nb-1)+h, dist-1-off, nb
				}
			}
		}
		pd.put(w, dsym)
		w.bits(uint64(dex), nbits)
	}
	pc.put(w, cmdB)
	putDist(0)
	for j := 1; j <= ncmdA; j++ {
		pc.put(w, cmdA)
		if j < ncmdA {
			putDist(j)
		}
	}
	w.align()
	return w.buf
}

func probeCap() {
	for _, n := range []int{70000, 1<<24 - 1, 1 << 24} {
		t0 := time.Now()
		in := probeCapStream(n)
		fmt.Printf("stream with %d+1 commands, MLEN=%d: %d bytes (built in %.1fs)\n", n, n, len(in), time.Since(t0).Seconds())
		t0 = time.Now()
		zr, _ := brotli.NewReader(bytes.NewReader(in), nil)
		nout, err := io.Copy(io.Discard, zr)
		fmt.Printf("  dsnet brotli.Reader: %d bytes, err=%v, InputOffset=%d (%.1fs)\n", nout, err, zr.InputOffset, time.Since(t0).Seconds())
		t0 = time.Now()
		cr := cbrotli.NewReader(bytes.NewReader(in))
		lout, lerr := io.Copy(io.Discard, cr)
		cr.Close()
		fmt.Printf("  libbrotlidec:        %d bytes, err=%v (%.1fs)\n", lout, lerr, time.Since(t0).Seconds())
	}
}
