package main

// Finding D14 (C02), repaired in /repo a4683a3; kept as a regression on every run. One compressed
// meta-block with a single insert-and-copy block type and MORE than 2^24 commands: RFC 7932 gives a
// single-type block category a block count of 16777216 and no block-switch code; the Lean
// specification fails when that count is used up and libbrotlidec never completes such a stream;
// before the repair brotli.Reader (typeLen = -1) did not count at all and accepted it. (It was the
// excluded point of the size cap the first proof of C02_refines_spec needed.)
//
// Stream (generated on the fly, never held in memory): WBITS = 24; one last meta-block, MLEN = nA;
// one block type per category; literal code = the one symbol 'x' (zero bits); insert-and-copy code
// = two symbols (one bit): B = insert 0 / copy 4, A = insert 1 / copy 4, both with an explicit
// distance; distance code = all 64 symbols with 6 bits. Every copy refers to the static dictionary
// with transform 34 (OmitFirst4) on a four-byte word: the empty string. Commands: nB1 times B (no
// output), nA-1 times A (one literal each), nB2 times B, one last A whose literal ends the
// meta-block: nB1 + nA + nB2 commands, nA bytes of output.

import (
	"fmt"
	"io"
	"math/bits"
	"time"

	"github.com/dsnet/compress/brotli"
	cbrotli "github.com/dsnet/compress/internal/cgo/brotli"
)

// fastW packs LSB-first bit fields and hands full chunks to an io.Writer.
type fastW struct {
	out io.Writer
	buf []byte
	acc uint64
	n   uint
	err error
}

func (f *fastW) put(v uint64, nb uint) {
	f.acc |= v << f.n
	f.n += nb
	for f.n >= 8 {
		f.buf = append(f.buf, byte(f.acc))
		f.acc >>= 8
		f.n -= 8
	}
	if len(f.buf) >= 1<<16 {
		f.flush()
	}
}

func (f *fastW) flush() {
	if f.err == nil && len(f.buf) > 0 {
		_, f.err = f.out.Write(f.buf)
	}
	f.buf = f.buf[:0]
}

// rev returns the n-bit prefix-code word v (first bit = most significant) as an LSB-first field.
func rev(v uint32, n uint) uint64 { return uint64(bits.Reverse32(v) >> (32 - n)) }

func capStreamTo(out io.Writer, nB1, nA, nB2 int) error {
	w := &bitW{}
	w.bit(1)
	w.bits(7, 3) // WBITS = 24
	w.bit(1)     // ISLAST
	w.bit(0)     // ISLASTEMPTY
	nib := uint(4)
	for (nA-1)>>(4*nib) > 0 {
		nib++
	}
	w.bits(uint64(nib-4), 2) // MNIBBLES
	w.bits(uint64(nA-1), 4*nib)
	w.bit(0) // NBLTYPESL = 1
	w.bit(0) // NBLTYPESI = 1
	w.bit(0) // NBLTYPESD = 1
	w.bits(0, 2)
	w.bits(0, 4)
	w.bits(0, 2) // context mode
	w.bit(0)     // NTREESL = 1
	w.bit(0)     // NTREESD = 1
	r := NewRand(1)
	writeSimple(w, r, 256, []int{'x'})
	cmdA, cmdB := 2<<6|1<<3|2, 2<<6|0<<3|2
	pc := writeSimple(w, r, 704, []int{cmdB, cmdA})
	var items []clItem
	for i := 0; i < 64; i++ {
		items = append(items, clItem{6, 0})
	}
	pd := writeComplex(w, items, 0)
	// hand the header over to the fast packer
	f := &fastW{out: out}
	full := int(w.nbit / 8)
	for _, b := range w.buf[:full] {
		f.put(uint64(b), 8)
	}
	if rem := w.nbit % 8; rem > 0 {
		f.put(uint64(w.buf[full])&(1<<rem-1), rem)
	}
	aBits, aLen := rev(pc.code[cmdA][0], uint(pc.code[cmdA][1])), uint(pc.code[cmdA][1])
	bBits, bLen := rev(pc.code[cmdB][0], uint(pc.code[cmdB][1])), uint(pc.code[cmdB][1])
	var dBits [64]uint64
	var dLen [64]uint
	for s := 0; s < 64; s++ {
		dBits[s], dLen[s] = rev(pd.code[s][0], uint(pd.code[s][1])), uint(pd.code[s][1])
	}
	const window = 1<<24 - 16
	putDist := func(produced int) {
		dist := min(produced, window) + 1 + 34<<10
		// dist-1 in [((2+h)<<nb)-4, +1<<nb)
		x := uint(dist - 1 + 4)
		nb := uint(bits.Len(x)) - 2
		h := int(x>>nb) & 1
		off := ((2 + h) << nb) - 4
		sym := 16 + 2*int(nb-1) + h
		f.put(dBits[sym], dLen[sym])
		f.put(uint64(dist-1-off), nb)
	}
	produced := 0
	for i := 0; i < nB1; i++ {
		f.put(bBits, bLen)
		putDist(produced)
	}
	for j := 1; j < nA; j++ {
		f.put(aBits, aLen)
		produced++
		putDist(produced)
	}
	for i := 0; i < nB2; i++ {
		f.put(bBits, bLen)
		putDist(produced)
	}
	f.put(aBits, aLen) // its literal ends the meta-block
	if f.n > 0 {
		f.put(0, 8-f.n)
	}
	f.flush()
	return f.err
}

type countW struct{ n int64 }

func (c *countW) Write(p []byte) (int, error) { c.n += int64(len(p)); return len(p), nil }

// capRun feeds the generated stream to a decoder through a pipe; returns bytes delivered and the error.
func capRun(nB1, nA, nB2 int, lib bool) (int64, error) {
	pr, pw := io.Pipe()
	go func() { pw.CloseWithError(capStreamTo(pw, nB1, nA, nB2)) }()
	var n int64
	var err error
	if lib {
		cr := cbrotli.NewReader(pr)
		n, err = io.Copy(io.Discard, cr)
		cr.Close()
	} else {
		zr, _ := brotli.NewReader(pr, nil)
		n, err = io.Copy(io.Discard, zr)
	}
	pr.CloseWithError(io.ErrClosedPipe) // release the generator if the decoder stopped early
	return n, err
}

var probeCases = [][3]int{{1, 70000, 0}, {1, 1<<24 - 1, 0}, {1, 1 << 24, 0}}

func probeCap() {
	for _, c := range probeCases {
		var cw countW
		t0 := time.Now()
		capStreamTo(&cw, c[0], c[1], c[2])
		fmt.Printf("B x %d, A x %d, B x %d, A: %d commands, MLEN=%d, %d bytes (generated in %.1fs)\n",
			c[0], c[1]-1, c[2], c[0]+c[1]+c[2], c[1], cw.n, time.Since(t0).Seconds())
		t0 = time.Now()
		n, err := capRun(c[0], c[1], c[2], false)
		fmt.Printf("  dsnet brotli.Reader: %d bytes, err=%v (%.1fs)\n", n, err, time.Since(t0).Seconds())
		t0 = time.Now()
		n, err = capRun(c[0], c[1], c[2], true)
		fmt.Printf("  libbrotlidec:        %d bytes, err=%v (%.1fs)\n", n, err, time.Since(t0).Seconds())
	}
}
