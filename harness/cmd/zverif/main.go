package main

import (
	"github.com/dsnet/compress/brotli"
	"bufio"
	"flag"
	"fmt"
	"os"
	"runtime/debug"
	"strings"
	"time"
)

func main() {
	family := flag.String("family", "", "scenario family")
	tier := flag.String("tier", "quick", "quick|thorough")
	seed := flag.Uint64("seed", 1, "PRNG seed (VERIF_SEED)")
	out := flag.String("out", "", "output directory")
	corpus := flag.String("corpus", "", "file of input scenario lines that run first")
	input := flag.String("input", "", "replay: run only the input lines of this file")
	list := flag.Bool("list", false, "list families")
	dumpDict := flag.String("dump-brotli-dict", "", "write the static dictionary of /repo/brotli to this file and exit")
	probe := flag.String("probe", "", "run a one-off probe (cap | capmid: more than 2^24 commands in a single-type meta-block) and exit")
	flag.Parse()
	if *probe == "cap" {
		probeCap()
		return
	}
	if *probe == "capmid" { // the count used up well before the end of the input (watchdogs: libbrotlidec does not return)
		probeCapDsnet(0, 1<<24-100, 1000)
		probeCapLib(1, 1<<24, 0)
		probeCapLib(0, 1<<24-100, 1000)
		probeCapLib(0, 1<<24-100000, 200000)
		return
	}
	if *dumpDict != "" {
		if err := os.WriteFile(*dumpDict, brotli.VerifStaticDict(), 0o644); err != nil {
			fmt.Fprintln(os.Stderr, err)
			os.Exit(2)
		}
		return
	}
	if *list {
		for k, f := range families {
			fmt.Printf("%s\t%s\n", k, f.Rule)
		}
		return
	}
	f := families[*family]
	if f == nil || *out == "" {
		fmt.Fprintln(os.Stderr, "usage: zverif -family F -out DIR [-tier T] [-seed N] [-corpus FILE] [-input FILE]")
		os.Exit(2)
	}
	start := time.Now()
	o := NewOut(*out, f.Name)
	o.tier = *tier
	exec1 := func(line string) {
		line = strings.TrimSpace(line)
		if line == "" || strings.HasPrefix(line, "#") {
			return
		}
		if o.Hangs >= 3 {
			o.Count("skipped-after-hangs")
			return
		}
		id := o.NextID()
		func() {
			defer func() {
				if p := recover(); p != nil {
					o.Count("harness-recovered-panic")
					o.Violate("C08", fmt.Sprintf("panic escaped the API: %v\n%s", p, firstLines(string(debug.Stack()), 12)), "panic", line)
				}
			}()
			f.Exec(o, id, line)
		}()
	}
	readLines := func(path string) {
		fh, err := os.Open(path)
		if err != nil {
			return
		}
		defer fh.Close()
		sc := bufio.NewScanner(fh)
		sc.Buffer(make([]byte, 1<<20), 1<<28)
		for sc.Scan() {
			exec1(sc.Text())
		}
	}
	ncorpus := 0
	if *input != "" {
		readLines(*input)
	} else {
		if *corpus != "" {
			readLines(*corpus)
			ncorpus = o.Evals
		}
		f.Gen(NewRand(*seed), *tier, exec1)
	}
	o.Close(*out, map[string]interface{}{
		"rule": f.Rule, "seed": *seed, "tier": *tier, "corpus_scenarios": ncorpus,
		"wall_s": time.Since(start).Seconds(),
	})
	fmt.Printf("family=%s evaluations=%d distinct_nontrivial=%d violations=%d wall=%.1fs\n",
		f.Name, o.Evals, len(o.distinct), len(o.Violations), time.Since(start).Seconds())
}

func firstLines(s string, n int) string {
	ls := strings.Split(s, "\n")
	if len(ls) > n {
		ls = ls[:n]
	}
	return strings.Join(ls, "\n")
}
