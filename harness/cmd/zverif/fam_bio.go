package main

// Family "bio": prefix.Reader and prefix.Writer driven by scripts (C20 bit I/O,
// and the source-shape independence behind C10/C11).

import (
	"bufio"
	"bytes"
	"fmt"
	"io"
	"strconv"
	"strings"

	"github.com/dsnet/compress/internal/prefix"
)

// advSrc is a compress.BufferedReader whose Buffered() answers are scripted;
// it mirrors the Lean `Source`.
type advSrc struct {
	data      []byte
	failAfter int // <0: never
	tag       int
	adv       []int
	peeked    int
}

func (s *advSrc) avail() int {
	if s.failAfter >= 0 && s.failAfter < len(s.data) {
		return s.failAfter
	}
	return len(s.data)
}
func (s *advSrc) shortErr() error {
	if s.failAfter >= 0 && s.failAfter < len(s.data) {
		return injected(s.tag)
	}
	return io.EOF
}
func (s *advSrc) consume(n int) {
	s.data = s.data[n:]
	if s.failAfter >= 0 {
		s.failAfter -= n
		if s.failAfter < 0 {
			s.failAfter = 0
		}
	}
	s.peeked -= n
	if s.peeked < 0 {
		s.peeked = 0
	}
	s.next()
}

// next: a state change brings up the next scripted Buffered() answer.
func (s *advSrc) next() {
	if len(s.adv) > 0 {
		s.adv = s.adv[1:]
	}
}
func (s *advSrc) Read(p []byte) (int, error) {
	k := min(len(p), s.avail())
	if k == 0 && len(p) > 0 {
		return 0, s.shortErr()
	}
	copy(p, s.data[:k])
	s.consume(k)
	return k, nil
}
func (s *advSrc) Buffered() int {
	if len(s.adv) == 0 {
		return s.avail()
	}
	return min(s.avail(), max(s.peeked, s.adv[0]))
}
func (s *advSrc) Peek(n int) ([]byte, error) {
	s.next()
	if n <= s.avail() {
		s.peeked = max(s.peeked, n)
		return s.data[:n], nil
	}
	s.peeked = max(s.peeked, s.avail())
	return s.data[:s.avail()], s.shortErr()
}
func (s *advSrc) Discard(n int) (int, error) {
	if n <= s.avail() {
		s.consume(n)
		return n, nil
	}
	k := s.avail()
	err := s.shortErr()
	s.consume(k)
	return k, err
}

// byteSrc offers Read and ReadByte only.
type byteSrc struct{ advSrc }

func (s *byteSrc) ReadByte() (byte, error) {
	if s.avail() < 1 {
		return 0, s.shortErr()
	}
	b := s.data[0]
	s.consume(1)
	return b, nil
}

// byteEOFSrc offers Read and ReadByte (no Peek); Read returns the last bytes together with io.EOF.
type byteEOFSrc struct{ data []byte }

func (s *byteEOFSrc) Read(p []byte) (int, error) {
	n := copy(p, s.data)
	s.data = s.data[n:]
	if len(s.data) == 0 {
		return n, io.EOF
	}
	return n, nil
}
func (s *byteEOFSrc) ReadByte() (byte, error) {
	if len(s.data) == 0 {
		return 0, io.EOF
	}
	b := s.data[0]
	s.data = s.data[1:]
	return b, nil
}

// failEndSrc delivers all its data and then answers with an I/O error instead of io.EOF.
type failEndSrc struct {
	data []byte
	tag  int
}

func (s *failEndSrc) Read(p []byte) (int, error) {
	if len(s.data) == 0 {
		return 0, injected(s.tag)
	}
	n := copy(p, s.data[:min(len(s.data), 7)])
	s.data = s.data[n:]
	return n, nil
}

type byteFailEndSrc struct{ *failEndSrc }

func (s byteFailEndSrc) ReadByte() (byte, error) {
	if len(s.data) == 0 {
		return 0, injected(s.tag)
	}
	b := s.data[0]
	s.failEndSrc.data = s.data[1:]
	return b, nil
}

type byteOnlySrc struct{ s *byteSrc }

func (b byteOnlySrc) Read(p []byte) (int, error) { return b.s.Read(p) }
func (b byteOnlySrc) ReadByte() (byte, error)    { return b.s.ReadByte() }

// fragReader hands out data in scripted fragment sizes, optionally together with io.EOF.
type fragReader struct {
	data      []byte
	frags     []int
	eofWith   bool
	failAfter int
	tag       int
	done      int
}

func (f *fragReader) Read(p []byte) (int, error) {
	if len(p) == 0 {
		return 0, nil
	}
	lim := len(f.data)
	if f.failAfter >= 0 && f.failAfter < lim {
		lim = f.failAfter
	}
	if f.done >= lim {
		if lim < len(f.data) {
			return 0, injected(f.tag)
		}
		return 0, io.EOF
	}
	n := 1
	if len(f.frags) > 0 {
		n = f.frags[0]
		f.frags = append(f.frags[1:], f.frags[0])
	}
	if n < 1 {
		n = 1
	}
	n = min(n, len(p), lim-f.done)
	copy(p, f.data[f.done:f.done+n])
	f.done += n
	if f.eofWith && f.done == len(f.data) && lim == len(f.data) {
		return n, io.EOF
	}
	return n, nil
}

// mkSource builds the Go source for a source-kind name; the result is what is
// handed to Init, plus a function reporting how many bytes the consumer took.
func mkSource(kind string, data []byte, failAfter, tag int, adv []int, frags []int) io.Reader {
	switch kind {
	case "adv":
		return &advSrc{data: data, failAfter: failAfter, tag: tag, adv: adv}
	case "byte":
		return byteOnlySrc{&byteSrc{advSrc{data: data, failAfter: failAfter, tag: tag}}}
	case "byteeof":
		return &byteEOFSrc{data: data}
	case "failend":
		return &failEndSrc{data: data, tag: tag}
	case "bytefailend":
		return byteFailEndSrc{&failEndSrc{data: data, tag: tag}}
	case "bytes":
		return bytes.NewReader(data)
	case "buffer":
		return bytes.NewBuffer(append([]byte(nil), data...))
	case "strings":
		return strings.NewReader(string(data))
	case "bufio16":
		return bufio.NewReaderSize(&fragReader{data: data, frags: frags, failAfter: failAfter, tag: tag}, 16)
	case "bufio17":
		return bufio.NewReaderSize(&fragReader{data: data, frags: frags, failAfter: failAfter, tag: tag}, 17)
	case "bufio4096":
		return bufio.NewReaderSize(&fragReader{data: data, frags: frags, failAfter: failAfter, tag: tag}, 4096)
	case "readonly":
		return &fragReader{data: data, frags: frags, failAfter: failAfter, tag: tag}
	case "onebyte":
		return &fragReader{data: data, frags: []int{1}, failAfter: failAfter, tag: tag}
	case "eofwith":
		return &fragReader{data: data, frags: frags, eofWith: true, failAfter: failAfter, tag: tag}
	}
	panic("unknown source kind " + kind)
}

// wrapKinds: the source kinds wrap.go wraps.
var wrapKinds = []string{"bytes", "strings", "buffer"}

var realKinds = []string{"bytes", "buffer", "strings", "bufio16", "bufio17", "bufio4096", "readonly", "onebyte", "eofwith"}

func parseInts(s string) []int {
	var out []int
	if s == "" || s == "-" {
		return out
	}
	for _, t := range strings.Split(s, ",") {
		v, _ := strconv.Atoi(t)
		out = append(out, v)
	}
	return out
}

func brErr(err error) string {
	if err == nil {
		return "nil"
	}
	return errClass(err)
}

// runBr executes a reader script; exact=true prints Flush offsets.
func runBr(src io.Reader, big bool, cs prefix.PrefixCodes, ops []string) []string {
	var pr prefix.Reader
	var pd prefix.Decoder
	if len(cs) > 0 {
		pd.Init(cs)
	}
	pr.Init(src, big)
	var res []string
	for _, op := range ops {
		r, stop := brStep(&pr, &pd, op)
		if r != "" {
			res = append(res, r)
		}
		if stop {
			break
		}
	}
	return res
}

// brStep executes one script operation on pr.
func brStep(pr *prefix.Reader, pd *prefix.Decoder, op string) (res string, stop bool) {
	f := strings.Split(op, ":")
	switch f[0] {
	case "b":
		n, _ := strconv.Atoi(f[1])
		var v uint
		err, p := catch(func() { v = pr.ReadBits(uint(n)) })
		switch {
		case p != nil:
			return "b:panic", true
		case err != nil:
			return "b:" + brErr(err), true
		default:
			return fmt.Sprintf("b:%d", v), false
		}
	case "t":
		n, _ := strconv.Atoi(f[1])
		v, ok := pr.TryReadBits(uint(n))
		if ok {
			return fmt.Sprintf("t:%d", v), false
		}
		err, p := catch(func() { v = pr.ReadBits(uint(n)) })
		switch {
		case p != nil:
			return "t:panic", true
		case err != nil:
			return "t:" + brErr(err), true
		default:
			return fmt.Sprintf("t:%d", v), false
		}
	case "p":
		return fmt.Sprintf("p:%d", pr.ReadPads()), false
	case "r":
		n, _ := strconv.Atoi(f[1])
		buf := make([]byte, n)
		var k int
		var e error
		_, p := catch(func() {
			for k < n && e == nil {
				var c int
				c, e = pr.Read(buf[k:])
				k += c
			}
		})
		if p != nil {
			return "r:-:panic", true
		}
		return fmt.Sprintf("r:%s:%s", hx(buf[:k]), brErr(e)), e != nil
	case "f":
		var off int64
		var e error
		_, p := catch(func() { off, e = pr.Flush() })
		if p != nil {
			return "f:0:panic", true
		}
		return fmt.Sprintf("f:%d:%s", off, brErr(e)), e != nil
	case "y":
		var v uint
		err, p := catch(func() { v = pr.ReadSymbol(pd) })
		switch {
		case p != nil:
			return "y:panic", true
		case err != nil:
			return "y:" + brErr(err), true
		default:
			return fmt.Sprintf("y:%d", v), false
		}
	case "q":
		return fmt.Sprintf("q:%d", pr.BitsRead()), false
	}
	return "", false
}

// wrapSrc is a source object of one of the three kinds wrap.go wraps, as its owner holds it.
type wrapSrc struct {
	kind string
	br   *bytes.Reader
	sr   *strings.Reader
	bb   *bytes.Buffer
}

func newWrapSrc(kind string, data []byte, skip int) *wrapSrc {
	w := &wrapSrc{kind: kind}
	switch kind {
	case "strings":
		w.sr = strings.NewReader(string(data))
		w.sr.Seek(int64(skip), io.SeekStart)
	case "buffer":
		w.bb = bytes.NewBuffer(append([]byte(nil), data...))
		w.bb.Next(skip)
	default:
		w.kind = "bytes"
		w.br = bytes.NewReader(data)
		w.br.Seek(int64(skip), io.SeekStart)
	}
	return w
}
func (w *wrapSrc) reader() io.Reader {
	switch w.kind {
	case "strings":
		return w.sr
	case "buffer":
		return w.bb
	}
	return w.br
}
func (w *wrapSrc) left() int {
	switch w.kind {
	case "strings":
		return w.sr.Len()
	case "buffer":
		return w.bb.Len()
	}
	return w.br.Len()
}

// retarget: the owner's Reset(data) on the same object.
func (w *wrapSrc) retarget(data []byte) {
	switch w.kind {
	case "strings":
		w.sr.Reset(string(data))
	case "buffer":
		w.bb.Reset()
		w.bb.Write(data)
	default:
		w.br.Reset(data)
	}
}
func (w *wrapSrc) seek(off int64, whence int) string {
	var a int64
	var e error
	switch w.kind {
	case "strings":
		a, e = w.sr.Seek(off, whence)
	case "buffer":
		return "S:-"
	default:
		a, e = w.br.Seek(off, whence)
	}
	if e != nil {
		return "S:err"
	}
	return fmt.Sprintf("S:%d", a)
}

// runBrw executes a reader script over a bytes.Reader / strings.Reader / bytes.Buffer source
// with ONE prefix.Reader that the script may Init again: on the same object re-targeted by
// its Reset (R:<hex>), on another object already advanced by k bytes (N:<kind>:<hex>:<k>);
// S:<off>:<whence> is a Seek by the owner of the source. It reports the bytes left in the
// source object at every Init and at the end (the concrete wrapper model must agree: kind brw).
func runBrw(kind string, data []byte, skip int, big bool, cs prefix.PrefixCodes, ops []string) []string {
	var pr prefix.Reader
	var pd prefix.Decoder
	if len(cs) > 0 {
		pd.Init(cs)
	}
	src := newWrapSrc(kind, data, skip)
	pr.Init(src.reader(), big)
	var res []string
	for _, op := range ops {
		f := strings.Split(op, ":")
		switch f[0] {
		case "R":
			res = append(res, fmt.Sprintf("R:%d", src.left()))
			src.retarget(unhx(f[1]))
			pr.Init(src.reader(), big)
			continue
		case "N":
			res = append(res, fmt.Sprintf("N:%d", src.left()))
			k, _ := strconv.Atoi(f[3])
			src = newWrapSrc(f[1], unhx(f[2]), k)
			pr.Init(src.reader(), big)
			continue
		case "S":
			off, _ := strconv.ParseInt(f[1], 10, 64)
			wh, _ := strconv.Atoi(f[2])
			res = append(res, src.seek(off, wh))
			continue
		}
		r, stop := brStep(&pr, &pd, op)
		if r != "" {
			res = append(res, r)
		}
		if stop {
			break
		}
	}
	return append(res, fmt.Sprintf("left=%d", src.left()))
}

func execBio(o *Out, id, line string) {
	kind, kv := parseLine(line)
	ops := strings.Split(kv["ops"], "|")
	big := kv["big"] == "1"
	cs := parseCodesGo(kv["codes"])
	if len(cs) > 0 {
		if err := prefix.GeneratePrefixes(cs); err != nil {
			return
		}
	}
	switch kind {
	case "br":
		data := unhx(kv["src"])
		fail := -1
		if kv["fail"] != "" && kv["fail"] != "-" {
			fail, _ = strconv.Atoi(kv["fail"])
		}
		tag, _ := strconv.Atoi(kv["tag"])
		mode := kv["mode"] // adv | byte
		res := runBr(mkSource(mode, data, fail, tag, parseInts(kv["adv"]), nil), big, cs, ops)
		scn := fmt.Sprintf("br id=%s big=%s mode=%s src=%s fail=%s tag=%d adv=%s codes=%s ops=%s", id, kv["big"],
			map[string]string{"adv": "buf", "byte": "byte"}[mode], hx(data), kv["fail"], tag, kv["adv"], fmtCodes(cs, true), kv["ops"])
		o.Count("br-" + mode)
		o.Emit(id, line, scn, strings.Join(res, "|"), mode+kv["ops"]+kv["src"][:min(len(kv["src"]), 40)])
		// source-shape independence: the same script over every real source kind
		// yields the same values and bit counts (offsets at Flush included)
		if fail < 0 {
			base := strings.Join(stripOffsets(res), "|")
			for _, k := range realKinds {
				got := runBr(mkSource(k, data, -1, tag, nil, parseInts(kv["frags"])), big, cs, ops)
				if g := strings.Join(stripOffsets(got), "|"); g != base {
					o.Violate("C10", fmt.Sprintf("bit reader over source kind %s returns %s, over %s returns %s", k, trunc(g, 200), mode, trunc(base, 200)), "bitreader-source-shape", line)
					break
				}
			}
			// the same script through the concrete model of the wrap.go wrappers (kind brw):
			// values, offsets, errors and the bytes left in the source object must agree
			for _, k := range wrapKinds {
				wid := id + "w" + k[:2]
				got := runBrw(k, data, 0, big, cs, ops)
				o.Count("brw-" + k)
				o.Emit(wid, "", fmt.Sprintf("brw id=%s big=%s kind=%s skip=0 src=%s codes=%s ops=%s", wid, kv["big"], k, hx(data), fmtCodes(cs, true), kv["ops"]), strings.Join(got, "|"), "")
			}
		}
	case "brw":
		data := unhx(kv["src"])
		skip, _ := strconv.Atoi(kv["skip"])
		k := kv["kind"]
		got := runBrw(k, data, skip, big, cs, ops)
		o.Count("brw-script-" + k)
		o.Emit(id, line, fmt.Sprintf("brw id=%s big=%s kind=%s skip=%d src=%s codes=%s ops=%s", id, kv["big"], k, skip, hx(data), fmtCodes(cs, true), kv["ops"]), strings.Join(got, "|"), "brw"+k+kv["ops"]+kv["src"][:min(len(kv["src"]), 40)])
		// C14 on the implementation alone: after the last Init the same Reader behaves as a new
		// Reader on a new source object with the same contents and position
		last := -1
		for i, op := range ops {
			if strings.HasPrefix(op, "R:") || strings.HasPrefix(op, "N:") {
				last = i
			}
		}
		if last >= 0 && len(got) > last+1 { // the script got as far as that Init
			f := strings.Split(ops[last], ":")
			fk, fs := k, 0
			var fd []byte
			if f[0] == "N" {
				fk, fd = f[1], unhx(f[2])
				fs, _ = strconv.Atoi(f[3])
			} else {
				fd = unhx(f[1])
				for i := last - 1; i >= 0; i-- { // R keeps the kind of the current object
					if strings.HasPrefix(ops[i], "N:") {
						fk = strings.Split(ops[i], ":")[1]
						break
					}
				}
			}
			fresh := runBrw(fk, fd, fs, big, cs, ops[last+1:])
			if a, b := strings.Join(got[last+1:], "|"), strings.Join(fresh, "|"); a != b {
				o.Violate("C14", fmt.Sprintf("prefix.Reader after a second Init on a %s source returns %s, a new Reader on the same contents returns %s", fk, trunc(a, 200), trunc(b, 200)), "wrapper-reinit", line)
			}
		}
	case "bw":
		sink := parseSinkSpec(kv["sink"])
		var pw prefix.Writer
		var pe prefix.Encoder
		if len(cs) > 0 {
			pe.Init(cs)
		}
		pw.Init(sink, big)
		var res []string
		ok := true
		for _, op := range ops {
			f := strings.Split(op, ":")
			var tag string
			var err error
			var p interface{}
			switch f[0] {
			case "b":
				v, _ := strconv.ParseUint(f[1], 10, 64)
				n, _ := strconv.Atoi(f[2])
				err, p = catch(func() { pw.WriteBits(uint(v), uint(n)) })
				tag = "b"
			case "t":
				v, _ := strconv.ParseUint(f[1], 10, 64)
				n, _ := strconv.Atoi(f[2])
				if pw.TryWriteBits(uint(v), uint(n)) {
					res = append(res, "t:1")
				} else {
					res = append(res, "t:0")
				}
				continue
			case "p":
				v, _ := strconv.Atoi(f[1])
				pw.WritePads(uint(v))
				res = append(res, "p")
				continue
			case "w":
				var cnt int
				var e error
				_, p = catch(func() { cnt, e = pw.Write(unhx(f[1])) })
				err = e
				tag = fmt.Sprintf("w:%d", cnt)
			case "f":
				var off int64
				var e error
				_, p = catch(func() { off, e = pw.Flush() })
				err = e
				tag = fmt.Sprintf("f:%d", off)
			case "y":
				s, _ := strconv.Atoi(f[1])
				err, p = catch(func() { pw.WriteSymbol(uint(s), &pe) })
				tag = "y"
			case "q":
				res = append(res, fmt.Sprintf("q:%d", pw.BitsWritten()))
				continue
			}
			if p != nil {
				res = append(res, tag+":panic")
				ok = false
				break
			}
			res = append(res, tag+":"+brErr(err))
			if err != nil {
				ok = false
				break
			}
		}
		res = append(res, "sink="+hx(sink.got))
		o.Count("bw")
		scn := fmt.Sprintf("bw id=%s big=%s sink=%s codes=%s ops=%s", id, kv["big"], kv["sink"], fmtCodes(cs, true), kv["ops"])
		o.Emit(id, line, scn, strings.Join(res, "|"), "bw"+kv["ops"][:min(len(kv["ops"]), 120)])
		// H4: read the script back
		if ok && sink.fails == 0 && strings.HasSuffix(kv["ops"], "|f") {
			for _, k := range []string{"bytes", "byte", "bufio16", "onebyte"} {
				var pr prefix.Reader
				var pd prefix.Decoder
				if len(cs) > 0 {
					pd.Init(cs)
				}
				pr.Init(mkSource(k, sink.got, -1, 0, nil, []int{3, 1, 7}), big)
				bad := ""
				err, p := catch(func() {
					for _, op := range ops {
						f := strings.Split(op, ":")
						switch f[0] {
						case "b", "t":
							v, _ := strconv.ParseUint(f[1], 10, 64)
							n, _ := strconv.Atoi(f[2])
							if f[0] == "t" && false {
								continue
							}
							if got := pr.ReadBits(uint(n)); uint64(got) != v {
								bad = fmt.Sprintf("field of %d bits: wrote %d read %d", n, v, got)
								return
							}
						case "p":
							v, _ := strconv.Atoi(f[1])
							if got := pr.ReadPads(); int(got) != v {
								bad = fmt.Sprintf("pads: wrote %d read %d", v, got)
								return
							}
						case "w":
							want := unhx(f[1])
							buf := make([]byte, len(want))
							if _, e := io.ReadFull(&pr, buf); e != nil || !bytes.Equal(buf, want) {
								bad = fmt.Sprintf("raw bytes: wrote %x read %x (%v)", want, buf, e)
								return
							}
						case "y":
							s, _ := strconv.Atoi(f[1])
							if got := pr.ReadSymbol(&pd); int(got) != s {
								bad = fmt.Sprintf("symbol: wrote %d read %d", s, got)
								return
							}
						}
					}
				})
				if p != nil || err != nil || bad != "" {
					o.Violate("C20", fmt.Sprintf("write-then-read over source %s: %s err=%v panic=%v", k, bad, err, p), "bitio-roundtrip", line)
					break
				}
			}
		}
	}
}

// stripOffsets removes the byte offsets of Flush results (they are compared
// exactly only against the model with the scripted source).
func stripOffsets(res []string) []string {
	out := make([]string, len(res))
	copy(out, res)
	return out
}

func genBio(r *Rand, tier string, emit func(string)) {
	n := 2500
	if tier == "thorough" {
		n = 60000
	}
	for i := 0; i < n; i++ {
		big := r.Intn(2)
		// a complete code for symbol ops
		nsym := 2 + r.Intn(30)
		lens := randCompleteLens(r, nsym, 3+r.Intn(12))
		nsym = len(lens)
		var cs []string
		for s, l := range lens {
			cs = append(cs, fmt.Sprintf("%d:%d", s, l))
		}
		codes := strings.Join(cs, ",")
		if i%2 == 0 { // reader script over random bytes
			data := r.Bytes(r.Intn(80))
			var ops []string
			aligned := true
			for k := 1 + r.Intn(40); k > 0; k-- {
				switch x := r.Intn(14); {
				case x < 5:
					nb := r.Intn(33)
					if r.Intn(6) == 0 {
						nb = 33 + r.Intn(24)
					}
					ops = append(ops, fmt.Sprintf("b:%d", nb))
					aligned = aligned && nb%8 == 0
				case x < 7:
					ops = append(ops, fmt.Sprintf("t:%d", r.Intn(20)))
					aligned = false
				case x == 7:
					ops = append(ops, "p")
					aligned = true
				case x == 8 && aligned:
					ops = append(ops, fmt.Sprintf("r:%d", r.Intn(30)))
				case x == 9:
					ops = append(ops, "f")
				case x < 12:
					ops = append(ops, "y")
					aligned = false
				default:
					ops = append(ops, "q")
				}
			}
			ops = append(ops, "q", "f")
			mode := "adv"
			if r.Intn(3) == 0 {
				mode = "byte"
			}
			var adv, frags []string
			for k := r.Intn(12); k > 0; k-- {
				adv = append(adv, strconv.Itoa(r.Intn(20)))
			}
			for k := 1 + r.Intn(4); k > 0; k-- {
				frags = append(frags, strconv.Itoa(1+r.Intn(9)))
			}
			fail := "-"
			if r.Intn(5) == 0 {
				fail = strconv.Itoa(r.Intn(len(data) + 1))
			}
			emit(fmt.Sprintf("br big=%d mode=%s src=%s fail=%s tag=%d adv=%s frags=%s codes=%s ops=%s", big, mode, hx(data), fail, 3+r.Intn(5), joinOr(adv, ","), joinOr(frags, ","), codes, strings.Join(ops, "|")))
		} else { // writer script
			var ops []string
			nbits := 0
			for k := 1 + r.Intn(60); k > 0; k-- {
				switch x := r.Intn(12); {
				case x < 5:
					nb := r.Intn(33)
					if r.Intn(8) == 0 {
						nb = 33 + r.Intn(24)
					}
					v := r.U64()
					if nb < 64 {
						v &= 1<<uint(nb) - 1
					}
					ops = append(ops, fmt.Sprintf("b:%d:%d", v, nb))
					nbits += nb
				case x == 5:
					ops = append(ops, "p:0")
					nbits += (8 - nbits%8) % 8
				case x == 6 && nbits%8 == 0:
					ops = append(ops, "w:"+hx(r.Bytes(r.Intn(600))))
				case x == 7 && r.Intn(3) == 0:
					ops = append(ops, "f")
				case x < 11:
					s := r.Intn(nsym)
					ops = append(ops, fmt.Sprintf("y:%d", s))
					nbits += lens[s]
				default:
					ops = append(ops, "q")
				}
			}
			ops = append(ops, "p:0", "q", "f")
			sink := "-"
			if r.Intn(4) == 0 {
				sink = fmt.Sprintf("%d:%s:%d:%d", r.Intn(1200), []string{"hard", "short"}[r.Intn(2)], r.Intn(2), 3+r.Intn(5))
			}
			emit(fmt.Sprintf("bw big=%d sink=%s codes=%s ops=%s", big, sink, codes, strings.Join(ops, "|")))
		}
	}
	nw := 700
	if tier == "thorough" {
		nw = 12000
	}
	genBrw(r, nw, emit)
}

// genBrw: reader scripts for the concrete wrapper model (kind brw): sources of up to three
// cache lengths (wrap.go caches 512 bytes), raw reads that bypass the cache, Seeks by the owner
// into, before and beyond the cached window, and a second/third Init of the same Reader on the
// same object after Reset or on another object at a non-zero offset.
func genBrw(r *Rand, n int, emit func(string)) {
	rnd := func(k int) []byte {
		b := make([]byte, k)
		for i := range b {
			b[i] = byte(r.U64())
		}
		return b
	}
	size := func() int {
		switch r.Intn(4) {
		case 0:
			return r.Intn(40)
		case 1:
			return 400 + r.Intn(300)
		default:
			return 500 + r.Intn(1200)
		}
	}
	for i := 0; i < n; i++ {
		big := r.Intn(2)
		lens := randCompleteLens(r, 2+r.Intn(30), 3+r.Intn(12))
		var cs []string
		for s, l := range lens {
			cs = append(cs, fmt.Sprintf("%d:%d", s, l))
		}
		kind := wrapKinds[r.Intn(3)]
		data := rnd(size())
		skip := 0
		if r.Intn(3) == 0 {
			skip = r.Intn(len(data) + 3)
		}
		var ops []string
		aligned := true
		inits := 0
		for k := 3 + r.Intn(40); k > 0; k-- {
			switch x := r.Intn(20); {
			case x < 5:
				nb := r.Intn(33)
				if r.Intn(6) == 0 {
					nb = 33 + r.Intn(24)
				}
				ops = append(ops, fmt.Sprintf("b:%d", nb))
				aligned = aligned && nb%8 == 0
			case x == 5:
				ops = append(ops, fmt.Sprintf("t:%d", r.Intn(20)))
				aligned = false
			case x == 6:
				ops = append(ops, "p")
				aligned = true
			case x < 10 && aligned:
				m := r.Intn(30)
				if r.Intn(3) == 0 {
					m = r.Intn(800)
				}
				ops = append(ops, fmt.Sprintf("r:%d", m))
			case x == 10:
				ops = append(ops, "f")
			case x == 11:
				ops = append(ops, "y")
				aligned = false
			case x == 12:
				ops = append(ops, "q")
			case x < 16: // a Seek by the owner
				wh := r.Intn(3)
				off := r.Intn(40) - 20
				switch r.Intn(4) {
				case 0:
					off = r.Intn(1200) - 600
				case 1:
					off = r.Intn(520)
				}
				if wh == 2 {
					off = -r.Intn(600)
					if r.Intn(8) == 0 {
						off = r.Intn(5)
					}
				}
				if r.Intn(40) == 0 {
					wh = 3
				}
				ops = append(ops, fmt.Sprintf("S:%d:%d", off, wh))
			case x < 18 && inits < 3 && len(ops) > 0: // Init again on the same object, re-targeted
				ops = append(ops, "R:"+hx(rnd(size())))
				inits++
				aligned = true
			case inits < 3 && len(ops) > 0: // Init again on another object, already advanced
				d := rnd(size())
				k := r.Intn(len(d) + 2)
				if r.Intn(3) == 0 {
					k = r.Intn(16)
				}
				nk := kind
				if r.Intn(3) == 0 {
					nk = wrapKinds[r.Intn(3)]
				}
				ops = append(ops, fmt.Sprintf("N:%s:%s:%d", nk, hx(d), k))
				inits++
				aligned = true
			}
		}
		ops = append(ops, "b:8", "q", "f")
		emit(fmt.Sprintf("brw big=%d kind=%s skip=%d src=%s codes=%s ops=%s", big, kind, skip, hx(data), strings.Join(cs, ","), strings.Join(ops, "|")))
	}
}

func init() {
	register(&Family{
		Name: "bio",
		Rule: "prefix.Reader scripts (ReadBits 0..56, TryReadBits, ReadPads, raw Read when aligned, Flush, ReadSymbol with a random complete code, BitsRead) over random bytes, both bit orders, a scripted Peek-capable source with adversarial Buffered() answers or a ReadByte-only source, with and without an injected source error; each script is repeated over bytes.Reader, bytes.Buffer, strings.Reader, bufio 16/17/4096 over fragmenting readers, Read-only, one-byte-per-call and data-with-EOF sources and must return the same values; over bytes.Reader, strings.Reader and bytes.Buffer each script also runs through the concrete model of the wrap.go wrappers (kind brw: values, offsets, errors, bytes left in the source object), and dedicated brw scripts (sources of up to three cache lengths, raw reads bypassing the cache, owner Seeks into/before/beyond the cached window) Init the same Reader a second and third time on the same object after Reset or on another object at a non-zero offset, also compared with a new Reader on a new object. prefix.Writer scripts (WriteBits, WritePads, raw Write, Flush, WriteSymbol) over a logging sink with optional hard/short, once/forever faults; fault-free scripts are read back through four source kinds. Distinct by script",
		Gen:  genBio,
		Exec: execBio,
	})
}
