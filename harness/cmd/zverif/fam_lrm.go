package main

// Family "lrm": flate.Reader, bzip2.Reader and brotli.Reader against their API-level Lean
// models (Compress/Flate/Api.lean, Compress/Bzip2/ReaderApi.lean). Scenario
// lines are of kind "lr" and are executed by execLife, which evaluates the
// C09/C18/C14 clauses on the trace (single Read calls) and then hands the
// scenario to lrModel: a second run on a fresh Reader whose per-call results
// (bytes, error class, InputOffset, OutputOffset) the model must reproduce.
// The lr scenarios of family life take the same path.

import (
	"bytes"
	"compress/flate"
	"fmt"
	"io"
	"reflect"
	"strconv"
	"strings"

	dbzip2 "github.com/dsnet/compress/bzip2"
	cbrotli "github.com/dsnet/compress/internal/cgo/brotli"
)

// lrmMaxStream caps the stream sizes handed to the model (the Lean inverse BWT and the bit-list
// input make the model about 1000 times slower than the Go code).
const lrmMaxStream = 6000

var lrmSources = map[string]bool{"bytes": true, "byte": true, "adv": true, "strings": true, "buffer": true,
	"readonly": true, "bufio16": true, "failend": true, "bytefailend": true}

func lrmByteKind(src string) bool { return src == "byte" || src == "bytefailend" }

// lrmInExact mirrors `inExact` of Compress/Drv/ReaderApi.lean; latched: zr.err != nil after the call.
func lrmInExact(typ, src, cls string, latched bool) bool {
	if cls == "eof" {
		return true
	}
	if typ == "bzip2" && !lrmByteKind(src) {
		return true
	}
	// "byte" hands Read everything that is left, as the model's raw read takes it; bytefailend hands
	// out at most 7 bytes per Read, so inside a stored block the Go offset lags behind the model's
	if src == "byte" && cls == "nil" && !latched {
		return true
	}
	// brotli over the ByteReaders that hand out everything they have: the offset is the number of
	// bytes pulled, which is what the model counts
	return typ == "brotli" && (src == "bytes" || src == "strings" || src == "buffer") && cls == "nil" && !latched
}

// errLatchedOf reports whether the unexported `err` field of the Reader is non-nil.
func errLatchedOf(r anyReader) bool {
	v := reflect.ValueOf(r)
	if v.Kind() == reflect.Ptr {
		v = v.Elem()
	}
	f := v.FieldByName("err")
	return f.IsValid() && f.Kind() == reflect.Interface && !f.IsNil()
}

func lenFieldOf(r anyReader, name string) int {
	v := reflect.ValueOf(r)
	if v.Kind() == reflect.Ptr {
		v = v.Elem()
	}
	if v.Kind() != reflect.Struct {
		return 0
	}
	f := v.FieldByName(name)
	if !f.IsValid() || f.Kind() != reflect.Slice {
		return 0
	}
	return f.Len()
}

func intFieldOf(r anyReader, name string) int64 {
	v := reflect.ValueOf(r)
	if v.Kind() == reflect.Ptr {
		v = v.Elem()
	}
	if v.Kind() != reflect.Struct {
		return 0
	}
	f := v.FieldByName(name)
	if !f.IsValid() || !f.CanInt() {
		return 0
	}
	return f.Int()
}

// lrModel runs the scenario once more for the model comparison. ok=false: the scenario stays
// oracle-only (type, source kind, ops or size outside what the model covers).
func lrModel(o *Out, id, line, typ, srcKind string, streams []string, fail, etag int, ops string) (scn, res string, ok bool) {
	if typ != "flate" && typ != "bzip2" && typ != "brotli" || !lrmSources[srcKind] {
		return "", "", false
	}
	var ds [][]byte
	for _, s := range streams {
		d := unhx(s)
		if len(d) > lrmMaxStream {
			return "", "", false
		}
		ds = append(ds, d)
	}
	opl := strings.Split(ops, "|")
	for _, op := range opl {
		if c := op[0]; c != 'R' && c != 'C' && c != 'A' && c != 'Z' {
			return "", "", false
		}
	}
	mk := func(d []byte) io.Reader { return mkSource(srcKind, d, fail, etag, nil, []int{3, 1, 5}) }
	curSrc := mk(ds[0])
	size := len(ds[0])
	var rd anyReader
	if _, p := catch(func() { rd, _ = newReaderOf(typ, curSrc, ds[0]) }); p != nil || rd == nil {
		return "", "", false
	}
	inStr := func(cls string) string {
		// inside a stored block (blkLen > 0) the model may already have latched the short read the Go
		// reader finds with its next step: treated like a latched error on both sides
		if lrmInExact(typ, srcKind, cls, errLatchedOf(rd) || (typ == "flate" && intFieldOf(rd, "blkLen") > 0)) {
			return strconv.FormatInt(intFieldOf(rd, "InputOffset"), 10)
		}
		return "-"
	}
	delivered := int64(0)
	counters := func(what string) {
		out := intFieldOf(rd, "OutputOffset")
		if out != delivered {
			o.Violate("C11", fmt.Sprintf("%s: after %s OutputOffset=%d, %d bytes were delivered since the last Reset", typ, what, out, delivered), "out-offset", line)
		}
		if br, isB := curSrc.(*bytes.Reader); isB {
			if in, taken := intFieldOf(rd, "InputOffset"), int64(size-br.Len()); in > taken {
				o.Violate("C11", fmt.Sprintf("%s: after %s InputOffset=%d, %d bytes were taken from the source", typ, what, in, taken), "in-offset", line)
			}
		}
	}
	var recs []string
	var pnc interface{}
	// flate over a ByteReader: ReadPrefixCodes sets the literal tree's MinBits to the length of the
	// end-of-block code, so at a cut the reader gives up as soon as fewer bits than that are left -
	// possibly before a shorter literal the model (and the reader over a BufferedReader) still
	// decodes. Same error, a shorter prefix: not comparable byte for byte
	ranOut := func(e error) bool {
		if typ == "flate" && lrmByteKind(srcKind) && (e == io.ErrUnexpectedEOF || isInjected(e, etag)) {
			o.Count("lrm-skip-bytereader-ran-out")
			return true
		}
		return false
	}
	for _, op := range opl {
		f := strings.Split(op, ":")
		switch f[0] {
		case "R":
			n, _ := strconv.Atoi(f[1])
			buf := make([]byte, n)
			got := 0
			var e error
			_, pnc = catch(func() {
				if typ == "bzip2" {
					got, e = rd.Read(buf)
					return
				}
				// flate, brotli: Read until n bytes or an error; then ask with an empty buffer (see Drv/ReaderApi.lean)
				for got < n && e == nil {
					var k int
					k, e = rd.Read(buf[got:])
					got += k
					if k == 0 && e == nil {
						e = fmt.Errorf("Read returned (0, nil) for a non-empty buffer")
					}
				}
				if e == nil {
					_, e = rd.Read(nil)
				}
			})
			if pnc != nil {
				return "", "", false
			}
			if ranOut(e) {
				return "", "", false
			}
			delivered += int64(got)
			c := errClass(e)
			recs = append(recs, fmt.Sprintf("R:%s:%s:%s:%d", outSummary(buf[:got]), c, inStr(c), intFieldOf(rd, "OutputOffset")))
		case "A":
			var got []byte
			var e error
			if _, pnc = catch(func() { got, e = io.ReadAll(rd) }); pnc != nil {
				return "", "", false
			}
			if ranOut(e) {
				return "", "", false
			}
			delivered += int64(len(got))
			c := errClass(e)
			ci := c
			if e == nil {
				ci = "eof"
			}
			recs = append(recs, fmt.Sprintf("A:%s:%s:%s:%d", outSummary(got), c, inStr(ci), intFieldOf(rd, "OutputOffset")))
		case "C":
			if typ == "flate" && intFieldOf(rd, "blkLen") > 0 {
				// Close inside a stored block drops the pending output and asks zr.err, which depends on how
				// many of the block's bytes the last step took (all that were available in the model, what
				// prefix.Reader had buffered in the Go code): not comparable
				o.Count("lrm-skip-close-in-stored-block")
				return "", "", false
			}
			if typ == "brotli" && lenFieldOf(rd, "toRead") > 0 && !(srcKind == "bytes" || srcKind == "strings" || srcKind == "buffer" || srcKind == "byte") {
				// Close with output pending asks br.err, and whether the error that ends the stream is latched
				// already depends on how many bytes of an uncompressed meta-block the last raw read took (all
				// that were available in the model, what the source or bufio.Reader handed out in the Go
				// code): comparable only over sources that hand out everything they have
				o.Count("lrm-skip-close-pending-short-reads")
				return "", "", false
			}
			var e error
			if _, pnc = catch(func() { e = rd.Close() }); pnc != nil {
				return "", "", false
			}
			recs = append(recs, fmt.Sprintf("C:%s:-:%d", errClass(e), intFieldOf(rd, "OutputOffset")))
		case "Z":
			i, _ := strconv.Atoi(f[1])
			curSrc = mk(ds[i])
			size = len(ds[i])
			if _, pnc = catch(func() { resetReader(typ, rd, curSrc, ds[i]) }); pnc != nil {
				return "", "", false
			}
			delivered = 0
			recs = append(recs, fmt.Sprintf("Z:%d:%d", intFieldOf(rd, "InputOffset"), intFieldOf(rd, "OutputOffset")))
		}
		counters(op)
	}
	fs := "-"
	if fail >= 0 {
		fs = strconv.Itoa(fail)
	}
	o.Count("lrm-model-" + typ)
	return fmt.Sprintf("lrm id=%s t=%s src=%s fail=%s etag=%d streams=%s ops=%s", id, typ, srcKind, fs, etag, strings.Join(streams, ","), ops),
		strings.Join(recs, "|"), true
}

func genLrm(r *Rand, tier string, emit func(string)) {
	thorough := tier == "thorough"
	text := func(n int) []byte {
		words := strings.Fields("the of and to in is that for it was as with be by on not he this are or his from at which but have an had they you were their one all we can her has there been if more when will would who so no time")
		var b []byte
		for len(b) < n {
			b = append(b, words[r.Intn(len(words))]...)
			b = append(b, ' ')
		}
		return b[:n]
	}
	flateMulti := func(parts [][]byte, lvl int) []byte { // one block (or more) per part: sync flushes in between
		var bb bytes.Buffer
		zw, _ := flate.NewWriter(&bb, lvl)
		for _, p := range parts {
			zw.Write(p)
			zw.Flush()
		}
		zw.Close()
		return bb.Bytes()
	}
	bz := func(d []byte, lvl int) []byte {
		var bb bytes.Buffer
		zw, _ := dbzip2.NewWriter(&bb, &dbzip2.WriterConfig{Level: lvl})
		zw.Write(d)
		zw.Close()
		return bb.Bytes()
	}
	type pool struct{ streams, plains []string }
	mkPool := func(t string) pool {
		var p pool
		add := func(s, pl []byte) {
			p.streams = append(p.streams, hx(s))
			if pl == nil {
				p.plains = append(p.plains, "?")
			} else {
				p.plains = append(p.plains, hx(pl))
			}
		}
		if t == "flate" {
			a := text(150 + r.Intn(300))
			s0 := flateMulti([][]byte{a}, 6) // dynamic or fixed block
			add(s0, a)
			c := append([]byte(nil), s0...)
			c[len(c)/2] ^= 0x55
			add(c, nil)
			add(s0[:len(s0)*2/3], nil)
			b := r.Bytes(40 + r.Intn(60))
			add(flateMulti([][]byte{text(60), b, text(30)}, []int{1, 6, 9}[r.Intn(3)]), nil) // several blocks, one of them stored
			add(flateMulti([][]byte{r.Bytes(30 + r.Intn(50))}, 0), nil) // stored blocks
			add(flateMulti([][]byte{[]byte("ab"), {}, []byte("abababababababababababab")}, -2), nil)
		} else if t == "brotli" {
			brz := func(d []byte, q int) []byte {
				var bb bytes.Buffer
				zw := cbrotli.NewWriter(&bb, q)
				zw.Write(d)
				zw.Close()
				return bb.Bytes()
			}
			a := text(150 + r.Intn(300))
			s0 := brz(a, 2+r.Intn(10)) // compressed meta-block(s), static-dictionary references
			add(s0, a)
			c := append([]byte(nil), s0...)
			c[len(c)/2] ^= 0x55
			add(c, nil)
			add(s0[:len(s0)*2/3], nil)
			// WBITS = 10: an uncompressed meta-block, then a compressed one whose copy is cut by the full window
			add(cutStream(r, 990+r.Intn(15), 1+r.Intn(20), 0, 0, 0, 1+r.Intn(900), 20+r.Intn(40)), nil)
			add(brz(r.Bytes(60+r.Intn(60)), 0), nil) // incompressible: uncompressed meta-blocks of libbrotlienc
			add(synthBrotli(r, 3+15*r.Intn(40)), nil) // the synthesiser: metadata / uncompressed / several meta-blocks
		} else {
			a := text(150 + r.Intn(300))
			s0 := bz(a, 1+r.Intn(9))
			add(s0, a)
			c := append([]byte(nil), s0...)
			c[len(c)/2] ^= 0x55
			add(c, nil)
			add(s0[:len(s0)*2/3], nil)
			b := r.Bytes(20 + r.Intn(100))
			s1 := bz(b, 1+r.Intn(9))
			add(append(append([]byte(nil), s0...), s1...), append(append([]byte(nil), a...), b...)) // two streams back to back
			add(bz(nil, 5), []byte{})                                                                   // the empty stream
			runs := bytes.Repeat([]byte{7}, 300+r.Intn(600))                                            // RLE1 runs: Reads end inside a run
			add(bz(append(runs, text(20)...), 2), nil)
		}
		return p
	}
	srcs := []string{"bytes", "byte", "adv", "readonly", "bufio16", "strings", "buffer"}
	for _, t := range []string{"flate", "bzip2", "brotli"} {
		p := mkPool(t)
		all := strings.Join(p.streams, ",")
		pl := strings.Join(p.plains, ",")
		// (1) a source fault at every byte position of every pool stream (valid, corrupt, truncated,
		// multi-block / multi-stream, stored): token error and the package's own Closed-coded error
		for i, st := range p.streams {
			s := unhx(st)
			for k := 0; k <= len(s); k++ {
				if !thorough && len(s) > 150 && k%3 != 0 && k > 12 && k < len(s)-12 {
					continue
				}
				src := []string{"adv", "byte", "readonly", "bufio16"}[(k+i)%4]
				tag := 9
				if (k+i)%4 == 0 {
					tag = closedTag(t)
				}
				tail := []string{"R:50|R:100000|R:100000|R:1|R:0|C|R:1|C", "A|R:1|C|C|R:1", "R:100000|C|Z:0|R:100000|R:1|C|C|R:3", "R:7|R:7|R:100000|R:100000|C|A"}[(k/2+i)%4]
				if k == len(s) {
					for _, fs := range []string{"failend", "bytefailend"} {
						emit(fmt.Sprintf("lr t=%s src=%s fail=- etag=%d streams=%s plains=%s ops=%s", t, fs, tag, st, p.plains[i], tail))
					}
					continue
				}
				emit(fmt.Sprintf("lr t=%s src=%s fail=%d etag=%d streams=%s plains=%s ops=%s", t, src, k, tag, st, p.plains[i], tail))
			}
		}
		// (2) all op sequences of a fixed depth over {Read 0/1/7/all, Close, ReadAll, Reset onto any pool stream}
		al := []string{"R:0", "R:1", "R:7", "R:100000", "C", "A"}
		for i := range p.streams {
			al = append(al, fmt.Sprintf("Z:%d", i))
		}
		depth := 3
		if thorough {
			depth = 4
		}
		var rec func(pre []string, k int)
		rec = func(pre []string, k int) {
			if k == 0 {
				emit(fmt.Sprintf("lr t=%s src=%s fail=- streams=%s plains=%s ops=%s|R:100000|C|R:1", t, srcs[r.Intn(len(srcs))], all, pl, strings.Join(pre, "|")))
				return
			}
			for _, a := range al {
				rec(append(pre, a), k-1)
			}
		}
		rec(nil, depth)
		// (3) random longer sequences, some over a failing source (the same fault applies to every stream
		// the reader is Reset onto)
		nR := 300
		if thorough {
			nR = 4000
		}
		for i := 0; i < nR; i++ {
			var ops []string
			for k := 2 + r.Intn(9); k > 0; k-- {
				switch r.Intn(8) {
				case 0, 1, 2:
					ops = append(ops, fmt.Sprintf("R:%d", []int{0, 1, 2, 5, 13, 64, 300, 100000}[r.Intn(8)]))
				case 3:
					ops = append(ops, "A")
				case 4, 5:
					ops = append(ops, "C")
				default:
					ops = append(ops, fmt.Sprintf("Z:%d", r.Intn(len(p.streams))))
				}
			}
			fs := "-"
			tag := 9
			if r.Intn(2) == 0 {
				fs = strconv.Itoa(r.Intn(200))
				if r.Intn(4) == 0 {
					tag = closedTag(t)
				}
			}
			src := srcs[r.Intn(len(srcs))]
			if fs != "-" {
				src = []string{"adv", "byte", "readonly", "bufio16"}[r.Intn(4)] // the kinds that take a fault position
			}
			emit(fmt.Sprintf("lr t=%s src=%s fail=%s etag=%d streams=%s plains=%s ops=%s", t, src, fs, tag, all, pl, strings.Join(ops, "|")))
		}
	}
}

func init() {
	register(&Family{
		Name: "lrm",
		Rule: "flate.Reader, bzip2.Reader and brotli.Reader (pool: libbrotlienc output valid / corrupt / truncated, a WBITS=10 stream with an uncompressed meta-block and a copy cut by the full window, incompressible data, a synthesised stream; Read as for flate; InputOffset also over bytes.Reader / strings.Reader / bytes.Buffer after calls that did not fail) vs their API-level Lean models: a source fault at every byte position of 6 streams per type (valid, corrupt, truncated, multi-block or two streams back to back, stored blocks or the empty stream, runs) x token / Closed-coded error x 4 tails (Read after the failure, Close, Close again, Read after Close, Reset and reuse), sources failing exactly at the end of their data; all op sequences of a fixed depth over {Read 0/1/7/all, Close, ReadAll, Reset onto any of the 6 streams}; random longer sequences with and without faults; through bytes.Reader / strings.Reader / bytes.Buffer / scripted BufferedReader / ReadByte-only / Read-only / bufio16 sources. Compared per call: bytes returned, error class, InputOffset (where the model's abstraction determines it: at io.EOF, for ReadByte-only sources after calls that did not fail, for bzip2 over buffered sources always), OutputOffset. The oracle clauses of family life (kind lr) are evaluated on the same scenarios. Streams up to 6000 bytes. Distinct by scenario",
		Gen:  genLrm,
		Exec: execLife,
	})
}
