package main

// Complex prefix codes (RFC 7932 section 3.5) for the independent Brotli synthesiser:
// the code-length code, literal code lengths and the two repeat symbols with their
// chained counts are written item by item, so that the boundary cases of the
// "run past the end of the alphabet" / "space used up" rules can be placed exactly.
// What a stream decodes to, and whether it is legal at all, is decided by libbrotlidec.

// clItem is one code-length symbol: 0..15 a literal length, 16 / 17 a repeat with extra bits.
type clItem struct {
	sym   int
	extra uint
}

// chainExtras returns the extra-bit values of consecutive repeat symbols (nb extra bits each)
// whose chained count is exactly n, or nil when no chain gives n.
func chainExtras(n int, nb uint) []uint {
	lo, hi := 3, 3+(1<<nb)-1
	if n >= lo && n <= hi {
		return []uint{uint(n - lo)}
	}
	if n < lo {
		return nil
	}
	// n = (t-2)<<nb + e + 3
	for e := 0; e < 1<<nb; e++ {
		rest := n - 3 - e
		if rest > 0 && rest%(1<<nb) == 0 {
			t := rest>>nb + 2
			if t < n {
				if pre := chainExtras(t, nb); pre != nil {
					return append(pre, uint(e))
				}
			}
		}
	}
	return nil
}

// runItems expresses "repeat count n" of symbol 16 or 17 as one chain; nil if impossible.
func runItems(sym, n int) []clItem {
	nb := uint(sym - 14)
	ex := chainExtras(n, nb)
	if ex == nil {
		panic("no repeat chain for this count")
	}
	var it []clItem
	for _, e := range ex {
		it = append(it, clItem{sym, e})
	}
	return it
}

// completeLens gives k symbols a complete prefix code of depth <= 5 (k = 2..18).
func completeLens(k int) []int {
	ls := []int{0}
	for len(ls) < k {
		// split the shallowest leaf
		mi := 0
		for i, l := range ls {
			if l < ls[mi] {
				mi = i
			}
		}
		ls[mi]++
		ls = append(ls, ls[mi])
	}
	return ls
}

// effectiveLens replays the items the way the format defines them: the code length of every
// symbol index reached (also beyond the alphabet).
func effectiveLens(items []clItem) []int {
	var lens []int
	last, repSym, repCnt := 8, 0, 0
	for _, it := range items {
		if it.sym < 16 {
			lens = append(lens, it.sym)
			if it.sym > 0 {
				last = it.sym
			}
			repSym = 0
			continue
		}
		if it.sym != repSym {
			repCnt, repSym = 0, it.sym
		}
		nb := uint(it.sym - 14)
		rep := int(it.extra) + 3
		if repCnt > 0 {
			rep += (repCnt - 2) << nb
		}
		d := rep - repCnt
		repCnt = rep
		for i := 0; i < d; i++ {
			if it.sym == 16 {
				lens = append(lens, last)
			} else {
				lens = append(lens, 0)
			}
		}
	}
	return lens
}

// writeComplex emits a complex prefix code given as items and returns the canonical code
// words of all symbol indices the items reach.
func writeComplex(w *bitW, items []clItem, hskipWanted int) *brSimple {
	used := map[int]bool{}
	for _, it := range items {
		used[it.sym] = true
	}
	// the code-length alphabet needs at least two symbols here (a one-symbol code-length
	// code is legal but is exercised by the reference encoder's streams)
	for s := 0; len(used) < 2; s++ {
		used[s] = true
	}
	var us []int
	for s := 0; s < 18; s++ {
		if used[s] {
			us = append(us, s)
		}
	}
	cl := completeLens(len(us))
	// deeper code words for the rarer (later) symbols: any assignment is legal
	lens18 := make([]int, 18)
	for i, s := range us {
		lens18[s] = cl[i]
	}
	order := []int{1, 2, 3, 4, 0, 5, 17, 6, 16, 7, 8, 9, 10, 11, 12, 13, 14, 15}
	hskip := 0
	if hskipWanted == 2 && lens18[1] == 0 && lens18[2] == 0 {
		hskip = 2
	}
	if hskipWanted == 3 && lens18[1] == 0 && lens18[2] == 0 && lens18[3] == 0 {
		hskip = 3
	}
	w.bits(uint64(hskip), 2)
	fixed := canonCodes([]int{2, 4, 3, 2, 2, 4})
	fixedLen := []uint{2, 4, 3, 2, 2, 4}
	space := 32
	for _, s := range order[hskip:] {
		l := lens18[s]
		w.code(fixed[l], fixedLen[l])
		if l > 0 {
			space -= 32 >> uint(l)
			if space <= 0 {
				break
			}
		}
	}
	cc18 := canonCodes(lens18)
	for _, it := range items {
		w.code(cc18[it.sym], uint(lens18[it.sym]))
		if it.sym >= 16 {
			w.bits(uint64(it.extra), uint(it.sym-14))
		}
	}
	eff := effectiveLens(items)
	cc := canonCodes(eff)
	ps := &brSimple{code: map[int][2]uint32{}}
	for s, l := range eff {
		if l > 0 {
			ps.syms = append(ps.syms, s)
			ps.code[s] = [2]uint32{cc[s], uint32(l)}
		}
	}
	return ps
}

// complexVariants: item lists for a 256-symbol alphabet placing the end of a repeat run or of
// the code space exactly at, just before and just beyond the end of the alphabet.
func complexVariants(r *Rand) [][]clItem {
	lit := func(ls ...int) []clItem {
		var it []clItem
		for _, l := range ls {
			it = append(it, clItem{sym: l})
		}
		return it
	}
	cat := func(parts ...[]clItem) []clItem {
		var it []clItem
		for _, p := range parts {
			it = append(it, p...)
		}
		return it
	}
	var vs [][]clItem
	// 256 symbols of length 8: as one run of 16s that ends exactly at the alphabet end
	vs = append(vs, cat(lit(8), runItems(16, 255)))
	// the same run started one symbol later: it crosses the end of the alphabet while the
	// code space is used up exactly (symbols 1..256)
	vs = append(vs, cat(lit(0, 8), runItems(16, 255)))
	vs = append(vs, cat(lit(0, 0, 8), runItems(16, 255)))
	// 128 symbols of length 7 at the very end of the alphabet, reached by a run of zeros
	vs = append(vs, cat(runItems(17, 128), lit(7), runItems(16, 127)))
	vs = append(vs, cat(runItems(17, 129), lit(7), runItems(16, 127))) // one too far
	// two symbols and a run of zeros to exactly the end / beyond the end of the alphabet
	vs = append(vs, cat(lit(1), runItems(17, 254), lit(1)))
	vs = append(vs, cat(lit(1, 2), runItems(17, 253), lit(2))) // last symbol index 255
	vs = append(vs, cat(lit(1, 2), runItems(17, 254), lit(2))) // symbol index 256: outside
	vs = append(vs, cat(lit(1, 2), runItems(17, 254)))         // zeros to the end, space left over
	vs = append(vs, cat(lit(1, 2), runItems(17, 300)))         // zeros far beyond the end
	// interleaved short runs and literal lengths (a complete code over the first symbols)
	vs = append(vs, cat(lit(2), runItems(17, 3), lit(2), runItems(17, 10), lit(3, 3), runItems(17, 11), lit(3), runItems(16, 3), lit(4)))
	// random complete codes: lengths from a random full binary tree, placed with gaps of zeros
	for i := 0; i < 12; i++ {
		k := 2 + r.Intn(40)
		ls := []int{0}
		for len(ls) < k {
			j := r.Intn(len(ls))
			if ls[j] >= 14 {
				continue
			}
			ls[j]++
			ls = append(ls, ls[j])
		}
		var it []clItem
		pos := 0
		for j, l := range ls {
			gap := 0
			if r.Intn(3) == 0 {
				gap = 3 + r.Intn(8)
			}
			if pos+gap+(len(ls)-j) > 256 {
				gap = 0
			}
			if gap > 0 {
				it = append(it, runItems(17, gap)...)
				pos += gap
			}
			// a run of equal lengths as a 16-chain now and then
			it = append(it, clItem{sym: l})
			pos++
		}
		vs = append(vs, it)
	}
	return vs
}

// complexLitStream: one last meta-block whose literal code is the given complex code; it
// inserts up to three literals (the first symbols that own a code word).
func complexLitStream(items []clItem, hskip int) []byte {
	w := &bitW{}
	w.bit(0) // WBITS = 16
	w.bit(1) // ISLAST
	w.bit(0) // ISLASTEMPTY
	eff := effectiveLens(items)
	var syms []int
	for s, l := range eff {
		if l > 0 && len(syms) < 3 {
			syms = append(syms, s)
		}
	}
	// the last symbol that owns a code word is the interesting one at the alphabet boundary
	for s := len(eff) - 1; s >= 0; s-- {
		if eff[s] > 0 {
			syms = append(syms, s)
			break
		}
	}
	mlen := len(syms)
	if mlen == 0 {
		mlen = 1
	}
	w.bits(0, 2) // MNIBBLES = 4
	w.bits(uint64(mlen-1), 16)
	w.bit(0)     // NBLTYPESL = 1
	w.bit(0)     // NBLTYPESI = 1
	w.bit(0)     // NBLTYPESD = 1
	w.bits(0, 2) // NPOSTFIX
	w.bits(0, 4) // NDIRECT
	w.bits(0, 2) // context mode
	w.bit(0)     // NTREESL = 1
	w.bit(0)     // NTREESD = 1
	pl := writeComplex(w, items, hskip)
	// insert-and-copy code: one symbol, insert length mlen (codes 0..5 are the lengths themselves), copy code 0
	iac := mlen << 3 // cell 0: insert codes 0..7, copy code 0, distance = last distance (never used: MLEN is reached by the insert)
	writeSimple(w, nil, 704, []int{iac})
	writeSimple(w, nil, 64, []int{0})
	// the command (zero bits), then the literals
	for _, s := range syms {
		if c, ok := pl.code[s]; ok {
			w.code(c[0], uint(c[1]))
		}
	}
	w.align()
	return w.buf
}
