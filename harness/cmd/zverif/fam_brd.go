package main

// Family "brd": Brotli decoding (C02): dsnet brotli.Reader vs libbrotlidec.

import (
	"bytes"
	"fmt"
	"io"
	"os"
	"path/filepath"
	"strconv"
	"strings"

	"github.com/dsnet/compress/brotli"
	cbrotli "github.com/dsnet/compress/internal/cgo/brotli"
)

func dsnetBrotliAll(b []byte, src string, sched []int) ([]byte, error, int64, int64) {
	zr, _ := brotli.NewReader(mkSource(src, b, -1, 0, nil, []int{3, 1, 7}), nil)
	var out []byte
	var err error
	for i := 0; err == nil; i++ {
		n := 4096
		if len(sched) > 0 {
			n = sched[min(i, len(sched)-1)]
		}
		buf := make([]byte, n)
		var k int
		k, err = zr.Read(buf)
		out = append(out, buf[:k]...)
		if i > 1<<22 {
			err = fmt.Errorf("no progress")
		}
	}
	if err == io.EOF {
		err = nil
	}
	return out, err, zr.InputOffset, zr.OutputOffset
}

func libBrotliAll(b []byte) ([]byte, error) {
	zr := cbrotli.NewReader(bytes.NewReader(b))
	out, err := io.ReadAll(zr)
	zr.Close()
	return out, err
}

func fnvHex(b []byte) string {
	h := uint64(14695981039346656037)
	for _, c := range b {
		h = (h ^ uint64(c)) * 1099511628211
	}
	return fmt.Sprintf("%016x", h)
}

func brdResult(out []byte, cls string, full bool) string {
	if cls != "eof" && !full {
		cls = "rej"
		// of a rejected input only the first 64 KiB of output are compared (see Drv/Brotli.lean)
		out = out[:min(len(out), 65536)]
	}
	return fmt.Sprintf("%s:%d:%s:%s", hx(out[:min(len(out), 64)]), len(out), fnvHex(out), cls)
}

func execBrd(o *Out, id, line string) {
	kind, kv := parseLine(line)
	if kind == "btr" { // one dictionary transform: Go transformWord vs the Lean table
		word := unhx(kv["word"])
		t, _ := strconv.Atoi(kv["t"])
		got := brotli.VerifTransformWord(word, t)
		o.Count("transform")
		o.Emit(id, line, fmt.Sprintf("btr id=%s word=%s t=%d", id, hx(word), t), hx(got), kv["word"]+"/"+kv["t"])
		return
	}
	if kv["cap"] != "" {
		// regression of finding D14 (probe_cap.go): 2^24+1 insert-and-copy commands in a meta-block with one
		// block type; the 58.7 MB input is generated on the fly
		var dn, ln int64
		var derr, lerr error
		if !withWatchdog(timeSec(120), func() {
			dn, derr = capRun(1, 1<<24, 0, false)
			ln, lerr = capRun(1, 1<<24, 0, true)
		}) {
			o.Violate("C08", "the single-type block count probe did not finish within 120s", "cap-probe-hang", line)
			return
		}
		o.Count("cap-probe")
		o.Emit(id, line, "", "", "cap")
		if derr == nil && lerr != nil {
			o.Violate("C02", fmt.Sprintf("a meta-block with one insert-and-copy block type and 2^24+1 commands (58,767,642 bytes, recipe probe_cap.go): brotli.Reader succeeds with %d bytes, libbrotlidec does not report a complete stream (%d bytes, %v): the implicit block count 16777216 of a single-type category is not enforced (finding D14)", dn, ln, lerr), "single-type-block-count-exhausted", line)
		} else if (derr == nil) != (lerr == nil) || dn != ln && derr == nil {
			o.Violate("C02", fmt.Sprintf("single-type block count probe: dsnet %d bytes err=%v, libbrotlidec %d bytes err=%v", dn, derr, ln, lerr), "cap-probe-other", line)
		}
		return
	}
	in := unhx(kv["in"])
	var out []byte
	var err error
	var inOff, outOff int64
	var p interface{}
	if !withWatchdog(timeSec(60), func() {
		_, p = catch(func() { out, err, inOff, outOff = dsnetBrotliAll(in, "bytes", nil) })
	}) {
		err = fmt.Errorf("hang")
	}
	if p != nil {
		o.Violate("C08", fmt.Sprintf("brotli.Reader panicked: %v", p), "brotli-panic", line)
		o.Emit(id, line, "", "panic", kv["in"])
		return
	}
	if err != nil && err.Error() == "hang" {
		o.Violate("C08", "brotli.Reader did not finish within 60s", "brotli-hang", line)
		return
	}
	cls := "eof"
	if err != nil {
		cls = errClass(err)
	}
	o.Count("dsnet-" + cls)
	key := ""
	if len(out) > 0 || err == nil {
		key = kv["in"]
	}
	o.Emit(id, line, "brd id="+id+" in="+hx(in), brdResult(out, cls, false), key)
	if cls != "eof" && cls != "corrupt" && cls != "ueof" {
		o.Violate("C09", "brotli.Reader failed with class "+cls+": "+err.Error(), "class-"+cls, line)
	}
	memOracle(o, line, "brotli", 16<<20, 4096, len(in), func() int {
		zr, _ := brotli.NewReader(bytes.NewReader(in), nil)
		return drain(zr)
	})
	lout, lerr := libBrotliAll(in)
	switch {
	case (lerr == nil) != (err == nil):
		o.Violate("C02", fmt.Sprintf("dsnet brotli.Reader ends with %v, libbrotlidec with %v", err, lerr), "verdict-libbrotli", line)
	case err == nil && !bytes.Equal(out, lout):
		o.Violate("C02", "both accept, outputs differ from libbrotlidec's", "output-libbrotli", line)
	case !commonPrefixOK(out, lout):
		o.Violate("C02", "bytes delivered before the error differ from libbrotlidec's", "prefix-libbrotli", line)
	}
	if want, ok := kv["plain"]; ok && (err != nil || !bytes.Equal(out, unhx(want))) {
		o.Violate("C02", fmt.Sprintf("valid stream: err=%v, output equal=%v", err, bytes.Equal(out, unhx(want))), "valid-plain", line)
	}
	if lerr == nil && err != nil {
		o.Count("lib-accepts-dsnet-rejects")
	}
	if lerr == nil {
		// libbrotlidec accepts: the stream is a prefix of `in`; find its length with a ReadByte source
		if err != nil {
			out = lout
			zr0, _ := brotli.NewReader(mkSource("byte", append(append([]byte{}, in...), 0, 0, 0, 0, 0, 0, 0, 0), -1, 0, nil, nil), nil)
			io.ReadAll(zr0)
			inOff = min(zr0.InputOffset, int64(len(in)))
		}
		if err == nil && outOff != int64(len(out)) {
			o.Violate("C11", fmt.Sprintf("brotli OutputOffset=%d after %d bytes", outOff, len(out)), "output-offset", line)
		}
		// exact consumption with a trailer, through ReadByte-only and Peek sources
		tr := []byte{0xde, 0xad, 0xbe, 0xef, 0x01}
		for _, src := range []string{"byte", "bufio16", "bytes"} {
			s := mkSource(src, append(append([]byte{}, in...), tr...), -1, 0, nil, []int{2, 5})
			zr, _ := brotli.NewReader(s, nil)
			got, e := io.ReadAll(zr)
			rest, _ := io.ReadAll(s)
			if e != nil || !bytes.Equal(got, out) {
				o.Violate("C10", fmt.Sprintf("brotli through source %s: err=%v equal=%v", src, e, bytes.Equal(got, out)), "source-shape", line)
			} else if want := append(append([]byte{}, in[min(int(inOff), len(in)):]...), tr...); zr.InputOffset != inOff || (src != "bufio16" && !bytes.Equal(rest, want)) {
				o.Violate("C11", fmt.Sprintf("brotli through source %s left %d unread bytes (trailer %d), InputOffset %d vs %d", src, len(rest), len(tr), zr.InputOffset, inOff), "over-read", line)
			}
		}
		// source shapes with nothing after the stream (the last bits of the input are the last bits read)
		if len(in) <= 6000 {
			for _, src := range append([]string{"byte", "byteeof"}, realKinds...) {
				got, e, _, _ := dsnetBrotliAll(in[:min(int(inOff), len(in))], src, nil)
				if e != nil || !bytes.Equal(got, out) {
					o.Violate("C10", fmt.Sprintf("brotli through source %s with nothing after the stream: err=%v equal=%v", src, e, bytes.Equal(got, out)), "source-shape-at-end", line)
					break
				}
			}
		}
		// cuts of a valid stream: exactly io.ErrUnexpectedEOF, in the implementation and in the specification
		if L := min(int(inOff), len(in)); L <= 3000 {
			for q, k := 0, 0; q < 6 && L > 0; q++ {
				k = (k*7 + int(in[q%L]) + q*13) % L
				cout, cerr, _, _ := dsnetBrotliAll(in[:k], "bytes", nil)
				ccls := "eof"
				if cerr != nil {
					ccls = errClass(cerr)
				}
				o.Emit(fmt.Sprintf("%sc%d", id, q), "", fmt.Sprintf("brd id=%sc%d cls=1 in=%s", id, q, hx(in[:k])), brdResult(cout, ccls, true), "")
				if ccls != "ueof" {
					o.Violate("C09", fmt.Sprintf("brotli stream of %d bytes cut at %d ends with class %s, not io.ErrUnexpectedEOF", L, k, ccls), "cut-class", line)
				} else if !bytes.HasPrefix(out, cout) {
					o.Violate("C12", fmt.Sprintf("brotli stream cut at %d delivers bytes that are not a prefix of the full output", k), "cut-prefix", line)
				}
			}
		}
		// Read-size independence
		for _, sched := range [][]int{{1}, {0, 0, 1, 0, 7}, {3, 100000}} {
			got, e, _, _ := dsnetBrotliAll(in, "bytes", sched)
			if e != nil || !bytes.Equal(got, out) {
				o.Violate("C10", fmt.Sprintf("brotli Read sizes %v change the output: err=%v", sched, e), "read-size-dependent", line)
				break
			}
		}
	}
}

func genBrd(r *Rand, tier string, emit func(string)) {
	thorough := tier == "thorough"
	e := func(b []byte) { emit("brd in=" + hx(b)) }
	e(nil)
	for a := 0; a < 256; a++ {
		e([]byte{byte(a)})
	}
	step := 1
	if !thorough {
		step = 5
	}
	for v := 0; v < 65536; v += step {
		e([]byte{byte(v), byte(v >> 8)})
	}
	var valid [][]byte
	n := 150
	if thorough {
		n = 3000
	}
	for i := 0; i < n; i++ {
		d := r.Bytes(r.Intn(3000))
		switch r.Intn(8) {
		case 0:
			d = r.Bytes(50000 + r.Intn(200000))
		case 1: // English-like text hits the static dictionary
			words := strings.Fields("the of and to in is that for it was as with be by on not he this are or his from at which but have an had they you were their one all we can her has there been if more when will would who so no time some could them only other new two may then do first any my now such like our over man me even most made after also did many before must through back years where much your way well down should because each just those people how too little state good very make world still own see men work long get here between both life being under never day same another know while last might us great old year off come since against go came right used take three")
			var b []byte
			for len(b) < 200+r.Intn(2000) {
				w := words[r.Intn(len(words))]
				if r.Intn(6) == 0 {
					w = strings.ToUpper(w[:1]) + w[1:]
				}
				b = append(b, w...)
				b = append(b, []string{" ", ", ", ". ", "\n"}[r.Intn(4)]...)
			}
			d = b
		}
		var bb bytes.Buffer
		zw := cbrotli.NewWriter(&bb, r.Intn(12))
		zw.Write(d)
		zw.Close()
		valid = append(valid, bb.Bytes())
		if len(d) < 5000 {
			emit("brd in=" + hx(bb.Bytes()) + " plain=" + hx(d))
		} else {
			e(bb.Bytes())
		}
	}
	// the repository's own test vectors, if present
	repoRoot := os.Getenv("VERIF_REPO")
	if repoRoot == "" {
		repoRoot = "/repo"
	}
	if files, err := filepath.Glob(repoRoot + "/testdata/*"); err == nil {
		for _, f := range files {
			if st, err := os.Stat(f); err != nil || st.IsDir() || st.Size() > 1<<20 || strings.HasSuffix(f, ".go") {
				continue
			}
			d, _ := os.ReadFile(f)
			if len(d) > 200000 {
				d = d[:200000]
			}
			var bb bytes.Buffer
			zw := cbrotli.NewWriter(&bb, 5+r.Intn(7))
			zw.Write(d)
			zw.Close()
			valid = append(valid, bb.Bytes())
			e(bb.Bytes())
		}
	}
	// every transform on words of every length from the static dictionary, preferring words
	// with bytes >= 0xc0 (multi-byte UTF-8: the uppercase transforms branch on the lead byte)
	{
		dict := brotli.VerifStaticDict()
		off := 0
		for L := 4; L <= 24; L++ {
			nw := 1 << brNDBits[L]
			var hi []int
			for i := 0; i < nw; i++ {
				for _, c := range dict[off+i*L : off+(i+1)*L] {
					if c >= 0xc0 {
						hi = append(hi, i)
						break
					}
				}
			}
			per := 3
			if thorough {
				per = 40
			}
			ntr := 20
			if thorough {
				ntr = 200
			}
			for q := 0; q < ntr; q++ { // the transform itself: Go transformWord vs the Lean transform table
				idx := r.Intn(nw)
				if q%2 == 1 && len(hi) > 0 {
					idx = hi[r.Intn(len(hi))]
				}
				for t := 0; t < 121; t++ {
					emit(fmt.Sprintf("btr word=%s t=%d", hx(dict[off+idx*L:off+(idx+1)*L]), t))
				}
			}
			for t := 0; t < 121; t++ {
				for q := 0; q < per; q++ {
					idx := r.Intn(nw)
					if q > 0 && len(hi) > 0 {
						idx = hi[r.Intn(len(hi))]
					}
					word := dict[off+idx*L : off+(idx+1)*L]
					if n := len(brotli.VerifTransformWord(word, t)); n > 0 {
						e(dictStream(L, idx, t, n))
					}
				}
			}
			off += nw * L
		}
	}
	// synthesised streams (synth_brotli.go): what the reference encoder never emits
	ns := 6000
	if thorough {
		ns = 150000
	}
	for i := 0; i < ns; i++ {
		b := synthBrotli(r, i)
		valid = append(valid, b)
		e(b)
	}
	// context maps, several trees per category, up to 256 block types, block switches inside
	// insert runs (synth_brotli_ctx.go)
	nctx := 2500
	if thorough {
		nctx = 60000
	}
	for i := 0; i < nctx; i++ {
		b := synthBrotliCtx(r)
		valid = append(valid, b)
		e(b)
	}
	// complex prefix codes written item by item (synth_brotli_complex.go): repeat runs and the
	// end of the code space at, before and beyond the end of the alphabet, every HSKIP
	for _, it := range complexVariants(r) {
		for _, hs := range []int{0, 2, 3} {
			b := complexLitStream(it, hs)
			valid = append(valid, b)
			e(b)
		}
	}
	nm := 4000
	if thorough {
		nm = 80000
	}
	for i := 0; i < nm; i++ {
		b := append([]byte(nil), valid[r.Intn(len(valid))]...)
		if len(b) > 3000 {
			b = b[:3000]
		}
		if len(b) == 0 {
			continue
		}
		switch r.Intn(5) {
		case 0:
			b[r.Intn(len(b))] ^= 1 << uint(r.Intn(8))
		case 1:
			b = b[:r.Intn(len(b)+1)]
		case 2:
			k := r.Intn(min(len(b), 24))
			b[k] ^= 1 << uint(r.Intn(8))
		case 3:
			b = append(b, r.Bytes(r.Intn(5))...)
		default:
			b[r.Intn(len(b))] = byte(r.U64())
		}
		e(b)
	}
	// regression of finding D14 on the real code (one scenario, a few seconds)
	emit("brd cap=single-type-block-count")
	_ = strconv.Itoa
}

func init() {
	register(&Family{
		Name: "brd",
		Rule: "Brotli inputs: every string of <= 1 byte and a stride (quick) or all (thorough) of the 2-byte strings; libbrotlienc output at qualities 0-11 for random, run-heavy, low-entropy and English-like (static-dictionary) data up to 250 KB and the repository's testdata files; one-command streams that emit a static-dictionary word under each of the 121 transforms for every word length (words with bytes >= 0xc0 preferred); streams from an independent synthesiser (every WBITS/NPOSTFIX/NDIRECT, simple prefix codes incl. one-symbol codes, arbitrary ring-buffer distance codes incl. explicit codes for a repeated distance, static-dictionary references for random (length, word, transform), several meta-blocks with different codes, uncompressed and metadata meta-blocks, MLEN off by one); bit flips, byte overwrites, truncations and extensions of all of those. Each input goes through dsnet brotli.Reader and libbrotlidec; accepted streams are re-read through ReadByte-only / bufio16 / bytes.Reader sources with a trailer and with Read sizes {1}, {0,0,1,0,7}, {3,100000}. Every input is also decoded by the Lean specification of RFC 7932 (verdict, output length and hash; reject class on cuts of valid streams), and the 121 dictionary transforms are compared with the Lean transform table on sampled words of every length. One scenario (cap=...) runs the recipe of probe_cap.go: a meta-block with one insert-and-copy block type and 2^24+1 commands, generated on the fly, through brotli.Reader and libbrotlidec (not through the Lean driver). Non-trivial = produced output or accepted",
		Gen:  genBrd,
		Exec: execBrd,
	})
}
