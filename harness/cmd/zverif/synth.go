package main

// Bit-level synthesis helpers shared by the decoder families: an LSB-first and
// MSB-first bit writer and an independent canonical Huffman assignment.

type bitW struct {
	buf  []byte
	nbit uint
	msb  bool
}

func (w *bitW) bit(b uint) {
	if w.nbit%8 == 0 {
		w.buf = append(w.buf, 0)
	}
	if b&1 == 1 {
		if w.msb {
			w.buf[len(w.buf)-1] |= 0x80 >> (w.nbit % 8)
		} else {
			w.buf[len(w.buf)-1] |= 1 << (w.nbit % 8)
		}
	}
	w.nbit++
}

// bits writes the n low bits of v, LSB first (DEFLATE extra bits) or MSB first (bzip2).
func (w *bitW) bits(v uint64, n uint) {
	if w.msb {
		for i := int(n) - 1; i >= 0; i-- {
			w.bit(uint(v >> uint(i)))
		}
		return
	}
	for i := uint(0); i < n; i++ {
		w.bit(uint(v >> i))
	}
}

// code writes a Huffman code word (canonical value, MSB first) of length n.
func (w *bitW) code(v uint32, n uint) {
	for i := int(n) - 1; i >= 0; i-- {
		w.bit(uint(v >> uint(i)))
	}
}

func (w *bitW) align() {
	for w.nbit%8 != 0 {
		w.bit(0)
	}
}

// canonCodes assigns canonical code values (MSB-first numeric) to lengths; 0 = unused.
// It never fails: for incomplete or over-subscribed vectors it still produces the
// values the canonical counting rule gives (possibly colliding).
func canonCodes(lens []int) []uint32 {
	maxLen := 0
	for _, l := range lens {
		if l > maxLen {
			maxLen = l
		}
	}
	cnt := make([]int, maxLen+2)
	for _, l := range lens {
		if l > 0 {
			cnt[l]++
		}
	}
	next := make([]uint32, maxLen+2)
	var code uint32
	for l := 1; l <= maxLen; l++ {
		code = (code + uint32(cnt[l-1])) << 1
		next[l] = code
	}
	// cnt[0] must not contribute
	code = 0
	cnt0 := cnt[0]
	_ = cnt0
	cnt[0] = 0
	for l := 1; l <= maxLen; l++ {
		code = (code + uint32(cnt[l-1])) << 1
		next[l] = code
	}
	out := make([]uint32, len(lens))
	for i, l := range lens {
		if l > 0 {
			out[i] = next[l]
			next[l]++
		}
	}
	return out
}
