package main

// Family "xo": xflate.NewReader + sequential ReadAll on arbitrary byte strings,
// in particular tampered XFLATE streams (C15; the open half of C08).

import (
	"bytes"
	"encoding/binary"
	"fmt"
	"hash/crc32"
	"io"
	"strings"
	"time"

	"github.com/dsnet/compress/xflate"
)

func metaStream(payload []byte, final int) []byte {
	s, _, _, _, err := metaEncode(payload, final, nil)
	if err != nil {
		return nil
	}
	return s.all()
}

type idxRec struct{ c, r uint64 }

// buildIndex encodes an index payload; tamper hooks adjust fields.
func buildIndex(back uint64, recs []idxRec, numRecs, totC, totR uint64, crcFix bool, crcXor uint32) []byte {
	var b []byte
	put := func(x uint64) { var t [10]byte; n := binary.PutUvarint(t[:], x); b = append(b, t[:n]...) }
	put(back)
	put(numRecs)
	put(totC)
	put(totR)
	for _, r := range recs {
		put(r.c)
		put(r.r)
	}
	crc := crc32.ChecksumIEEE(b)
	if crcFix {
		crc ^= crcXor
	}
	var t [4]byte
	binary.LittleEndian.PutUint32(t[:], crc)
	return append(b, t[:]...)
}

func buildFooter(back uint64) []byte {
	var t [16]byte
	n := copy(t[:], []byte{'X', 'F', 0})
	n += binary.PutUvarint(t[n:], back)
	return metaStream(t[:n], 2)
}

func execXO(o *Out, id, line string) {
	_, kv := parseLine(line)
	stream := unhx(kv["stream"])
	var xr *xflate.Reader
	var err error
	if !withWatchdog(20*time.Second, func() { xr, err = xflate.NewReader(bytes.NewReader(stream), nil) }) {
		o.Violate("C08", "NewReader did not return within 20s", "open-hang", line)
		return
	}
	memOracle(o, line, "xflate-open", 4<<20, 1024, len(stream), func() int {
		xflate.NewReader(bytes.NewReader(stream), nil)
		return 0
	})
	res := "err:" + errClass(err)
	if err == nil {
		var rs []string
		for _, rec := range xr.VerifRecords() {
			rs = append(rs, fmt.Sprintf("%d:%d:%d", rec.CompOffset, rec.RawOffset, rec.Type))
		}
		res = "ok:" + joinOr(rs, ";")
	}
	o.Count("open-" + strings.SplitN(res, ":", 2)[0] + "-" + errClass(err))
	key := ""
	if err == nil || len(stream) > 20 {
		key = kv["stream"]
	}
	o.Emit(id, line, "xo id="+id+" stream="+hx(stream), res, key)
	if err != nil {
		if c := errClass(err); c != "corrupt" && c != "ueof" {
			o.Violate("C09", "NewReader failed with class "+c, "open-class-"+c, line)
		}
		return
	}
	var got []byte
	var rerr error
	if !withWatchdog(20*time.Second, func() { got, rerr = io.ReadAll(xr) }) {
		o.Violate("C08", "sequential read did not finish within 20s", "read-hang", line)
		return
	}
	if rerr != nil {
		o.Count("read-" + errClass(rerr))
		return
	}
	o.Count("accepted")
	if len(stream) <= 700 {
		// the Open + Reader models over the RFC 1951 specification as the inflater
		o.Emit(id+"a", "", "xa id="+id+"a stream="+hx(stream), hx(got)+":eof", "")
	}
	// C15: whatever xflate accepts, a DEFLATE decoder reads identically
	std, unread, serr := inflateAll(stream)
	if serr != nil || unread != 0 || !bytes.Equal(std, got) {
		sig := "accept-not-deflate"
		// D10 shape: some non-footer chunk holds a final-block header. Such a chunk
		// followed by an empty NON-final stored block does not leave the inflater
		// waiting for the next block header with the same output.
		recs := xr.VerifRecords()
		var prev int64
		for j, rec := range recs {
			if j+1 < len(recs) && rec.Type == 1 && prev <= rec.CompOffset && rec.CompOffset <= int64(len(stream)) {
				chunk := stream[prev:rec.CompOffset]
				want, _ := chunkRaw(chunk)
				out, unread2, err2 := inflateAll(append(append([]byte{}, chunk...), 0, 0, 0, 0xff, 0xff))
				if !(err2 == io.ErrUnexpectedEOF && unread2 == 0 && len(out) == want) {
					// the known finding is about chunks that PASS the reader's checks legitimately,
					// in particular the sync marker: an accepted chunk whose last four bytes are not
					// 00 00 ff ff is a different violation and is reported as such
					if bytes.HasSuffix(chunk, []byte{0, 0, 0xff, 0xff}) {
						if sig == "accept-not-deflate" {
							sig = "final-block-in-chunk"
						}
					} else {
						sig = "accepted-chunk-without-sync-marker"
					}
				}
			}
			prev = rec.CompOffset
		}
		o.Count("c15-" + sig)
		o.Violate("C15", fmt.Sprintf("xflate.Reader accepted %d bytes and served %d; compress/flate: err=%v unread=%d out=%d equal=%v", len(stream), len(got), serr, unread, len(std), bytes.Equal(std, got)), sig, line)
	}
	if want, ok := kv["plain"]; ok && !bytes.Equal(unhx(want), got) {
		o.Violate("C05", "accepted stream served different data than was written", "served-differs", line)
	}
}

func genXO(r *Rand, tier string, emit func(string)) {
	thorough := tier == "thorough"
	e := func(b []byte) { emit("xo stream=" + hx(b)) }
	// short strings
	e(nil)
	for a := 0; a < 256; a++ {
		e([]byte{byte(a)})
	}
	// huge declared record counts (D3 regression): index ++ footer, nothing else
	for _, n := range []uint64{1 << 40, 1 << 62, 1<<63 - 1, 1 << 20, 3} {
		idx := metaStream(buildIndex(0, nil, n, 0, 0, false, 0), 1)
		e(append(append([]byte{}, idx...), buildFooter(uint64(len(idx)))...))
	}
	// declared counts that are consistent AMONG THEMSELVES (totals large enough for the declared
	// number of records) while the records are absent: memory must follow the input, not the header
	for _, n := range []uint64{1 << 16, 1 << 20, 1 << 22, 1 << 25} {
		for _, f := range []uint64{5, 6, 1000} {
			idx := metaStream(buildIndex(0, nil, n, f*n, f*n, false, 0), 1)
			e(append(append([]byte{}, idx...), buildFooter(uint64(len(idx)))...))
			idx = metaStream(buildIndex(0, []idxRec{{9, 3}}, n, f*n, f*n, false, 0), 1)
			e(append(append([]byte{0, 0, 0, 0xff, 0xff, 0, 0, 0xff, 0xff}, idx...), buildFooter(uint64(len(idx)))...))
		}
	}
	n := 400
	if thorough {
		n = 8000
	}
	for i := 0; i < n; i++ {
		cfg := randXwCfg(r)
		s, p, err := buildXflate(cfg, randXwOps(r, 8, 200))
		if err != nil {
			continue
		}
		emit("xo stream=" + hx(s) + " plain=" + hx(p))
		for k := 0; k < 6; k++ {
			b := append([]byte(nil), s...)
			switch r.Intn(11) {
			case 0: // flip a bit anywhere
				b[r.Intn(len(b))] ^= 1 << uint(r.Intn(8))
			case 1: // flip a bit in the tail (footer / last index)
				t := min(len(b), 80)
				b[len(b)-1-r.Intn(t)] ^= 1 << uint(r.Intn(8))
			case 2: // truncate
				b = b[:r.Intn(len(b)+1)]
			case 3: // trailing bytes
				b = append(b, r.Bytes(1+r.Intn(6))...)
			case 4: // leading bytes
				b = append(r.Bytes(1+r.Intn(6)), b...)
			case 5: // duplicate the stream (two footers)
				b = append(b, s...)
			case 6: // swap two chunks' worth of bytes near the start
				if len(b) > 40 {
					i, j := r.Intn(len(b)/2), len(b)/2+r.Intn(len(b)/2-20)
					b[i], b[j] = b[j], b[i]
				}
			case 7: // set a final bit somewhere in the first byte of the stream
				b[0] |= 1
			case 8: // clear the DEFLATE final bit of the footer block (the meta signature ignores it)
				if fs := xflate.VerifMetaReverseSearch(b); fs >= 0 {
					b[fs] &^= 1
				}
			case 9: // ... or of the last index block / set it on an index block
				if fs := xflate.VerifMetaReverseSearch(b); fs > 0 {
					if is := xflate.VerifMetaReverseSearch(b[:fs]); is >= 0 {
						b[is] ^= 1
					}
				}
			default: // replace the footer by one pointing elsewhere
				ft := buildFooter(uint64(r.Intn(300)))
				if len(b) > 20 {
					b = append(b[:len(b)-r.Intn(20)], ft...)
				}
			}
			e(b)
		}
	}
	// rebuilt tails: genuine chunks followed by a re-encoded (tampered) index and footer
	m := 300
	if thorough {
		m = 6000
	}
	for i := 0; i < m; i++ {
		nch := 1 + r.Intn(4)
		var body []byte
		var recs []idxRec
		var totC, totR uint64
		for c := 0; c < nch; c++ {
			d := r.Bytes(r.Intn(60))
			ch, _, err := buildXflate(xwCfg{level: r.Pick([]int{-1, 1, 6, 9}), chunk: 1 << 20, index: -1}, []xwOp{{kind: 'W', data: d}, {kind: 'F', mode: 1}})
			if err != nil || len(ch) < 30 {
				continue
			}
			// keep only the chunk bytes: strip the index+footer the writer appended
			xr, err := xflate.NewReader(bytes.NewReader(ch), nil)
			if err != nil {
				continue
			}
			cl := xr.VerifRecords()[0].CompOffset
			chunk := ch[:cl]
			if r.Intn(12) == 0 && len(chunk) > 0 {
				chunk = append([]byte(nil), chunk...)
				chunk[0] |= 1 // embedded final bit
			}
			body = append(body, chunk...)
			recs = append(recs, idxRec{uint64(len(chunk)), uint64(len(d))})
			totC += uint64(len(chunk))
			totR += uint64(len(d))
		}
		numRecs := uint64(len(recs))
		back := uint64(0)
		crcFix, crcXor := false, uint32(0)
		final := 1
		switch r.Intn(10) {
		case 0:
			numRecs++
		case 1:
			totC++
		case 2:
			totR += uint64(r.Intn(3)) + 1
		case 3:
			if len(recs) > 0 {
				recs[r.Intn(len(recs))].r++
			}
		case 4:
			if len(recs) > 0 {
				k := r.Intn(len(recs))
				recs[k].c = uint64(r.Intn(5)) // <= 4: no room for the sync marker
			}
		case 5:
			crcFix, crcXor = true, 1<<uint(r.Intn(32))
		case 6:
			back = uint64(1 + r.Intn(50))
		case 7:
			final = 0
		case 8:
			if len(recs) > 1 { // swap two records
				recs[0], recs[1] = recs[1], recs[0]
			}
		}
		idx := metaStream(buildIndex(back, recs, numRecs, totC, totR, crcFix, crcXor), final)
		foot := buildFooter(uint64(len(idx)))
		if r.Intn(15) == 0 {
			foot = metaStream([]byte{'X', 'F', 1, 0}, 2) // wrong flag byte
		}
		e(append(append(append([]byte{}, body...), idx...), foot...))
	}
	// two-index streams [chunks1][index1][chunks2][index2][footer] whose second index lies about
	// one chunk's raw size (totals, CRCs and back sizes all consistent)
	m2 := 200
	if thorough {
		m2 = 4000
	}
	for i := 0; i < m2; i++ {
		group := func() (body []byte, recs []idxRec, totC, totR uint64, plain []byte) {
			for c := 1 + r.Intn(2); c > 0; c-- {
				d := r.Bytes(1 + r.Intn(40))
				ch, _, err := buildXflate(xwCfg{level: r.Pick([]int{-1, 1, 6}), chunk: 1 << 20, index: -1}, []xwOp{{kind: 'W', data: d}, {kind: 'F', mode: 1}})
				if err != nil {
					continue
				}
				xr, err := xflate.NewReader(bytes.NewReader(ch), nil)
				if err != nil {
					continue
				}
				chunk := ch[:xr.VerifRecords()[0].CompOffset]
				body = append(body, chunk...)
				recs = append(recs, idxRec{uint64(len(chunk)), uint64(len(d))})
				totC += uint64(len(chunk))
				totR += uint64(len(d))
				plain = append(plain, d...)
			}
			return
		}
		b1, r1, c1, t1, _ := group()
		b2, r2, c2, t2, _ := group()
		if len(r1) == 0 || len(r2) == 0 {
			continue
		}
		switch r.Intn(4) {
		case 0: // a chunk of the second index declared empty
			k := r.Intn(len(r2))
			t2 -= r2[k].r
			r2[k].r = 0
		case 1: // ... or shorter than it is
			k := r.Intn(len(r2))
			if r2[k].r > 1 {
				r2[k].r--
				t2--
			}
		case 2: // a chunk of the first index declared empty
			k := r.Intn(len(r1))
			t1 -= r1[k].r
			r1[k].r = 0
		}
		idx1 := metaStream(buildIndex(0, r1, uint64(len(r1)), c1, t1, false, 0), 1)
		idx2 := metaStream(buildIndex(uint64(len(idx1)), r2, uint64(len(r2)), c2, t2, false, 0), 1)
		var st []byte
		st = append(st, b1...)
		st = append(st, idx1...)
		st = append(st, b2...)
		st = append(st, idx2...)
		st = append(st, buildFooter(uint64(len(idx2)))...)
		e(st)
	}
	// crafted chunks with an index that agrees with what the per-chunk inflater yields
	q := 1500
	if thorough {
		q = 30000
	}
	for i := 0; i < q; i++ {
		nch := 1 + r.Intn(3)
		var body []byte
		var recs []idxRec
		var totC, totR uint64
		for c := 0; c < nch; c++ {
			chunk := craftChunk(r)
			raw, ok := chunkRaw(chunk)
			if !ok && r.Intn(4) != 0 {
				c--
				continue
			}
			body = append(body, chunk...)
			recs = append(recs, idxRec{uint64(len(chunk)), uint64(raw)})
			totC += uint64(len(chunk))
			totR += uint64(raw)
		}
		idx := metaStream(buildIndex(0, recs, uint64(len(recs)), totC, totR, false, 0), 1)
		e(append(append(append([]byte{}, body...), idx...), buildFooter(uint64(len(idx)))...))
	}
}

// craftChunk builds chunk bytes from DEFLATE fragments the Writer never emits:
// final blocks that run into the end block chunkReader appends, stored blocks
// that are longer than the chunk, junk that ends in the sync marker.
func craftChunk(r *Rand) []byte {
	stored := func(final bool, data []byte, declared int) []byte {
		h := byte(0)
		if final {
			h = 1
		}
		return append([]byte{h, byte(declared), byte(declared >> 8), ^byte(declared), ^byte(declared >> 8)}, data...)
	}
	sync := []byte{0, 0, 0xff, 0xff}
	var b []byte
	for k := r.Intn(3); k > 0; k-- { // complete non-final stored blocks first
		d := r.Bytes(r.Intn(12))
		b = append(b, stored(false, d, len(d))...)
	}
	switch r.Intn(8) {
	case 0, 1: // final stored block swallowing exactly the five end-block bytes
		d := append(r.Bytes(r.Intn(6)), sync...)
		b = append(b, stored(true, d, len(d)+5)...)
	case 2: // final stored block swallowing 0..9 bytes
		d := append(r.Bytes(r.Intn(6)), sync...)
		b = append(b, stored(true, d, len(d)+r.Intn(10))...)
	case 3: // non-final stored block longer than the chunk
		d := append(r.Bytes(r.Intn(6)), sync...)
		b = append(b, stored(false, d, len(d)+r.Intn(12))...)
	case 4: // final dynamic block running through the end block
		b = append(b, 237, 210, 1, 161, 29, 65, 16, 4, 161, 234, 217, 123, 63, 254, 29, 199, 8, 104, 32, 0, 0, 255, 255)
	case 5: // fixed-Huffman bits (final or not) then the marker
		b = append(b, byte(2|r.Intn(2))|byte(r.Intn(32))<<3)
		b = append(b, r.Bytes(r.Intn(8))...)
		b = append(b, sync...)
	case 6: // a proper chunk: sync flush of nothing
		b = append(b, 0)
		b = append(b, sync...)
	default: // junk ending in the marker
		b = append(b, r.Bytes(1+r.Intn(10))...)
		b = append(b, sync...)
	}
	if r.Intn(5) == 0 && len(b) >= 4 {
		// a near miss of the sync marker at the end of the chunk (stored-block lengths count bytes,
		// so the block structure is unchanged): one byte replaced or one bit flipped
		k := len(b) - 1 - r.Intn(4)
		if r.Intn(2) == 0 {
			b[k] ^= 1 << uint(r.Intn(8))
		} else {
			b[k] = byte(r.U64())
		}
	}
	return b
}

// chunkRaw is what an inflater yields on chunk ++ endBlock, as xflate.Reader runs it.
func chunkRaw(chunk []byte) (int, bool) {
	out, unread, err := inflateAll(append(append([]byte{}, chunk...), xfEndBlock...))
	return len(out), err == nil && unread == 0
}

func init() {
	register(&Family{
		Name: "xo",
		Rule: "xflate.NewReader + ReadAll on arbitrary bytes: all strings <= 1 byte; index/footer-only streams declaring huge record counts; streams from the real Writer (random configuration and schedule) untouched and with bit flips (anywhere / in the tail), truncation, leading or trailing bytes, duplication, byte swaps, an early final bit, a footer or index block with its DEFLATE final bit toggled, a replaced footer; genuine chunks followed by a re-encoded index and footer with a tampered record count, totals, record sizes (incl. <= 4), CRC, back size, final mode, record order, flag byte, and chunks with an embedded final bit; two-index streams whose second (or first) index misdeclares a chunk's raw size with consistent totals; chunks crafted from DEFLATE fragments the Writer never emits (final stored / dynamic / fixed blocks running 0..9 bytes into the appended end block, over-long stored blocks, junk ending in the sync marker) under an index that agrees with the per-chunk inflater. Accepted streams of <= 700 bytes are also read by the Open+Reader models over the RFC 1951 specification (kind xa). Oracle: accepted + fully read => compress/flate reads the same bytes identically. Non-trivial = accepted or longer than 20 bytes; distinct by stream",
		Gen:  genXO,
		Exec: execXO,
	})
}
