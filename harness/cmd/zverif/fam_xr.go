package main

// Family "xr": sequences of Seek/Read/Close calls on xflate.Reader over valid
// XFLATE streams (C07; the fetch counts also serve C17).

import (
	"bufio"
	"bytes"
	"compress/flate"
	"fmt"
	"io"
	"strconv"
	"strings"
	"time"

	"github.com/dsnet/compress/xflate"
)

// ---- building streams with the real Writer ---------------------------------

type xwOp struct {
	kind byte // 'W' write, 'F' flush
	data []byte
	mode int
}

type xwCfg struct {
	level     int
	chunk     int64
	index     int64
	nilConfig bool
}

func (c xwCfg) conf() *xflate.WriterConfig {
	if c.nilConfig {
		return nil
	}
	return &xflate.WriterConfig{Level: c.level, ChunkSize: c.chunk, IndexSize: c.index}
}

func randXwCfg(r *Rand) xwCfg {
	return xwCfg{
		level: r.Pick([]int{-2, -1, 0, 1, 2, 5, 6, 9}),
		chunk: int64(r.Pick([]int{1, 2, 7, 50, 100, 400, 1000, 0})),
		index: int64(r.Pick([]int{-1, 0, 1, 2, 3, 5})),
	}
}

func randXwOps(r *Rand, maxOps, maxWrite int) []xwOp {
	n := r.Intn(maxOps + 1)
	tex := r.Fork()
	var ops []xwOp
	for i := 0; i < n; i++ {
		if r.Intn(4) == 0 {
			ops = append(ops, xwOp{kind: 'F', mode: r.Intn(3)})
		} else {
			sz := 0
			switch r.Intn(4) {
			case 0:
				sz = r.Intn(3)
			case 1:
				sz = r.Intn(40)
			default:
				sz = r.Intn(maxWrite + 1)
			}
			ops = append(ops, xwOp{kind: 'W', data: tex.Bytes(sz)})
		}
	}
	return ops
}

// buildXflate runs the real Writer; returns the stream and the plaintext.
func buildXflate(cfg xwCfg, ops []xwOp) (stream, plain []byte, err error) {
	var bb bytes.Buffer
	xw, err := xflate.NewWriter(&bb, cfg.conf())
	if err != nil {
		return nil, nil, err
	}
	for _, op := range ops {
		switch op.kind {
		case 'W':
			if _, err := xw.Write(op.data); err != nil {
				return nil, nil, err
			}
			plain = append(plain, op.data...)
		case 'F':
			if err := xw.Flush(xflate.FlushMode(op.mode)); err != nil {
				return nil, nil, err
			}
		}
	}
	if err := xw.Close(); err != nil {
		return nil, nil, err
	}
	return bb.Bytes(), plain, nil
}

// ---- the inflater's behaviour per segment (what ZRSpec abstracts) -----------

var xfEndBlock = []byte{0x01, 0x00, 0x00, 0xff, 0xff}

// chunkRd replicates xflate.chunkReader (reader.go:32-70).
type chunkRd struct {
	rd   io.LimitedReader
	sync uint32
	end  []byte
}

func (cr *chunkRd) Read(buf []byte) (int, error) {
	if cr.end != nil {
		n := copy(buf, cr.end)
		cr.end = cr.end[n:]
		if len(cr.end) == 0 {
			return n, io.EOF
		}
		return n, nil
	}
	n, err := cr.rd.Read(buf)
	i := n - 4
	if i < 0 {
		i = 0
	}
	for ; i < n; i++ {
		cr.sync = (cr.sync << 8) | uint32(buf[i])
	}
	if err == io.EOF {
		cr.end = xfEndBlock
		err = nil
	}
	return n, err
}

type cntRd struct {
	R io.Reader
	N int64
}

func (c *cntRd) Read(b []byte) (int, error) { n, err := c.R.Read(b); c.N += int64(n); return n, err }

func flateErrClass(err error) string {
	switch err.(type) {
	case flate.CorruptInputError:
		return "corrupt"
	case flate.InternalError:
		return "internal"
	}
	return errClass(err)
}

type segInfo struct {
	out   []byte
	fin   string
	inOff int64
	sync  uint32
}

func computeSeg(stream []byte, prevComp, currComp int64) segInfo {
	var src []byte
	if prevComp >= 0 && prevComp <= int64(len(stream)) {
		src = stream[prevComp:]
	}
	cr := &chunkRd{rd: io.LimitedReader{R: bytes.NewReader(src), N: currComp - prevComp}}
	cn := &cntRd{R: cr}
	br := bufio.NewReader(cn)
	zr := flate.NewReader(br)
	out, err := io.ReadAll(zr)
	return segInfo{out: out, fin: flateErrClass(err), inOff: cn.N - int64(br.Buffered()), sync: cr.sync}
}

func layoutStrings(stream []byte, recs []xflate.VerifRecord) (string, string) {
	var rs, ss []string
	var prev xflate.VerifRecord
	for i := 0; i <= len(recs); i++ {
		cur := prev
		if i < len(recs) {
			cur = recs[i]
			rs = append(rs, fmt.Sprintf("%d:%d:%d", cur.CompOffset, cur.RawOffset, cur.Type))
		}
		si := computeSeg(stream, prev.CompOffset, cur.CompOffset)
		ss = append(ss, fmt.Sprintf("%s:%s:%d:%d", hx(si.out), si.fin, si.inOff, si.sync))
		prev = cur
	}
	return joinOr(rs, ";"), joinOr(ss, ";")
}

func joinOr(xs []string, sep string) string {
	if len(xs) == 0 {
		return "-"
	}
	return strings.Join(xs, sep)
}

// ---- executing one scenario -------------------------------------------------

type cntRS struct {
	rs    io.ReadSeeker
	bytes int64
	seeks int
}

func (c *cntRS) Read(b []byte) (int, error) {
	n, err := c.rs.Read(b)
	c.bytes += int64(n)
	return n, err
}
func (c *cntRS) Seek(o int64, w int) (int64, error) { c.seeks++; return c.rs.Seek(o, w) }

// dataEOFRS is a ReadSeeker that reports io.EOF together with the last bytes (legal for an
// io.Reader; bytes.Reader and os.File report it on the following call).
type dataEOFRS struct{ rd *bytes.Reader }

func (d *dataEOFRS) Read(b []byte) (int, error) {
	n, err := d.rd.Read(b)
	if err == nil && d.rd.Len() == 0 {
		err = io.EOF
	}
	return n, err
}
func (d *dataEOFRS) Seek(o int64, w int) (int64, error) { return d.rd.Seek(o, w) }

// withWatchdog runs f; false means it did not return within d.
func withWatchdog(d time.Duration, f func()) bool {
	done := make(chan interface{}, 1)
	go func() {
		defer func() { done <- recover() }()
		f()
	}()
	select {
	case p := <-done:
		if p != nil {
			panic(p) // re-raised in the caller's goroutine, where the per-scenario recover sees it
		}
		return true
	case <-time.After(d):
		return false
	}
}

func execXR(o *Out, id, line string) {
	_, kv := parseLine(line)
	stream, plain := unhx(kv["stream"]), unhx(kv["plain"])
	ops := strings.Split(kv["ops"], "|")
	if kv["ops"] == "" || kv["ops"] == "-" {
		ops = nil
	}
	var base io.ReadSeeker = bytes.NewReader(stream)
	if kv["rs"] == "dataeof" {
		base = &dataEOFRS{rd: bytes.NewReader(stream)}
	}
	crs := &cntRS{rs: base}
	xr, err := xflate.NewReader(crs, nil)
	if err != nil {
		o.Count("open-failed")
		o.Violate("C05", "NewReader failed on a stream the Writer produced: "+err.Error(), "open-failed", line)
		return
	}
	recs := xr.VerifRecords()
	rstr, sstr := layoutStrings(stream, recs)
	o.Stats["records-total"] += len(recs)

	ref := bytes.NewReader(plain)
	var pos int64 // reference position
	var implRes, scnOps []string
	closed := false
	noref := kv["corrupt"] == "1" // a damaged chunk: only the model and the failure contract apply
	var latched error             // the first failure a Read returned
	nontrivial := len(recs) >= 3
	for _, op := range ops {
		f := strings.Split(op, ":")
		switch f[0] {
		case "S":
			off, _ := strconv.ParseInt(f[1], 10, 64)
			wh, _ := strconv.Atoi(f[2])
			var p int64
			var e error
			if !withWatchdog(5*time.Second, func() { p, e = xr.Seek(off, wh) }) {
				o.Violate("C07", "Seek did not return within 5s", "seek-hang", line)
				return
			}
			offAfter, _, _, _ := xr.VerifState()
			implRes = append(implRes, fmt.Sprintf("S:%d:%s:%d", p, errClass(e), offAfter))
			scnOps = append(scnOps, op)
			o.Count("op-seek-w" + f[2])
			if e == nil {
				latched = nil
			}
			if !closed && noref {
				// damaged stream: no plaintext reference
			} else if !closed {
				ref.Seek(pos, io.SeekStart)
				rp, re := ref.Seek(off, wh)
				if (re == nil) != (e == nil) {
					o.Violate("C07", fmt.Sprintf("Seek(%d,%d): error %v but reference %v", off, wh, e, re), "seek-err-mismatch", line)
				} else if re == nil {
					if rp != p {
						o.Violate("C07", fmt.Sprintf("Seek(%d,%d) returned %d, reference %d", off, wh, p, rp), "seek-pos-mismatch", line)
					}
					pos = rp
				} else if offAfter != pos {
					o.Violate("C07", fmt.Sprintf("failed Seek(%d,%d) moved the position %d -> %d", off, wh, pos, offAfter), "seek-fail-moved", line)
				}
				if re != nil {
					o.Count("seek-rejected")
				}
			} else if e == nil {
				o.Violate("C18", "Seek succeeded on a closed Reader", "seek-after-close", line)
			}
		case "R":
			n, _ := strconv.Atoi(f[1])
			buf := make([]byte, n)
			var k int
			var e error
			if !withWatchdog(5*time.Second, func() { k, e = xr.Read(buf) }) {
				o.Violate("C07", fmt.Sprintf("Read(len %d) at position %d did not return within 5s", n, pos), "read-hang", line)
				implRes = append(implRes, "R:HANG")
				scnOps = append(scnOps, fmt.Sprintf("R:%d:0:0", n))
				goto done
			}
			offAfter, _, zrOut, _ := xr.VerifState()
			hintE := 0
			if k > 0 && (zrOut == 0 || (e != nil && e != io.EOF)) {
				hintE = 1 // the inflater reported its end (or its failure) together with the last bytes
			}
			implRes = append(implRes, fmt.Sprintf("R:%s:%s:%d", hx(buf[:k]), errClass(e), offAfter))
			scnOps = append(scnOps, fmt.Sprintf("R:%d:%d:%d", n, k, hintE))
			o.Count("op-read")
			if n == 0 {
				o.Count("op-read-empty")
			}
			if latched != nil && (k != 0 || e != latched) {
				o.Violate("C09", fmt.Sprintf("after Read returned %v a later Read returned (%d, %v)", latched, k, e), "not-sticky", line)
			}
			if e != nil && e != io.EOF && latched == nil && !closed {
				latched = e
				o.Count("read-failed-" + errClass(e))
				if c := errClass(e); c != "corrupt" && c != "ueof" {
					o.Violate("C09", "xflate.Reader.Read failed with class "+c, "class", line)
				}
			}
			if !closed && noref {
				// damaged stream: no plaintext reference
			} else if !closed {
				end := int64(len(plain))
				var want []byte
				if pos < end {
					hi := pos + int64(k)
					if hi > end {
						hi = end
					}
					want = plain[pos:hi]
				}
				switch {
				case !bytes.Equal(want, buf[:k]):
					o.Violate("C07", fmt.Sprintf("Read at %d returned %d bytes that differ from the original", pos, k), "read-wrong-bytes", line)
				case n == 0 && !(k == 0 && (e == nil || (e == io.EOF && pos >= end))):
					o.Violate("C07", fmt.Sprintf("Read(empty) returned (%d,%v)", k, e), "read-empty-result", line)
				case n > 0 && pos < end && !(k >= 1 && (e == nil || (e == io.EOF && pos+int64(k) == end))):
					o.Violate("C07", fmt.Sprintf("Read(len %d) at %d (end %d) returned (%d,%v)", n, pos, end, k, e), "read-result", line)
				case n > 0 && pos >= end && !(k == 0 && e == io.EOF):
					o.Violate("C07", fmt.Sprintf("Read at/after the end (%d >= %d) returned (%d,%v)", pos, end, k, e), "read-at-end", line)
				}
				pos += int64(k)
				if e == io.EOF {
					o.Count("read-eof")
				}
			} else if k != 0 || e == nil {
				o.Violate("C18", "Read returned data or nil error on a closed Reader", "read-after-close", line)
			}
		case "C":
			e := xr.Close()
			if latched != nil && e == nil && !closed {
				o.Violate("C09", fmt.Sprintf("Close returned nil after Read had failed with %v", latched), "close-result", line)
			}
			implRes = append(implRes, "C:"+errClass(e))
			scnOps = append(scnOps, "C")
			o.Count("op-close")
			if e == nil {
				closed = true
			}
		}
	}
done:
	key := ""
	if nontrivial && len(ops) >= 2 {
		key = kv["stream"][:min(len(kv["stream"]), 64)] + "/" + kv["ops"]
	}
	scn := fmt.Sprintf("xr id=%s v=fixed recs=%s segs=%s ops=%s", id, rstr, sstr, joinOr(scnOps, "|"))
	if kv["nomodel"] == "1" {
		scn = "" // int64 wrap-around is outside the model (offsets are unbounded integers there)
	}
	o.Emit(id, line, scn, joinOr(implRes, "|"), key)
}

// ---- generation ---------------------------------------------------------------

type xrStream struct {
	stream, plain []byte
	bounds        []int64 // raw offsets of record boundaries
}

func genXrStreams(r *Rand, n int, maxWrite int) []xrStream {
	var out []xrStream
	for len(out) < n {
		cfg := randXwCfg(r)
		ops := randXwOps(r, 8, maxWrite)
		s, p, err := buildXflate(cfg, ops)
		if err != nil {
			continue
		}
		xr, err := xflate.NewReader(bytes.NewReader(s), nil)
		if err != nil {
			continue // reported by family xw (C05)
		}
		var b []int64
		for _, rec := range xr.VerifRecords() {
			b = append(b, rec.RawOffset)
		}
		out = append(out, xrStream{s, p, b})
	}
	return out
}

func xrAlphabet(r *Rand, st xrStream, small bool) []string {
	end := int64(len(st.plain))
	offs := map[int64]bool{-1: true, 0: true, 1: true, end - 1: true, end: true, end + 1: true, 1 << 40: true}
	for i, b := range st.bounds {
		if i < 4 || r.Intn(4) == 0 {
			offs[b-1], offs[b], offs[b+1] = true, true, true
		}
	}
	if end > 2 {
		offs[int64(r.Intn(int(end)))] = true
	}
	var al []string
	for o := range offs {
		al = append(al, fmt.Sprintf("S:%d:0", o))
	}
	// map iteration order is random: sort for determinism
	sortStrings(al)
	chunk := int64(1)
	if len(st.bounds) > 0 {
		chunk = st.bounds[0]
	}
	al = append(al, "S:-1:1", "S:0:1", "S:1:1", fmt.Sprintf("S:%d:1", chunk), "S:0:2", "S:-1:2", "S:1:2", "S:0:3",
		"R:0", "R:1", "R:3", fmt.Sprintf("R:%d", chunk+1), fmt.Sprintf("R:%d", end+5))
	if small && len(al) > 14 {
		// thin out deterministically
		var t []string
		for i, a := range al {
			if i%2 == 0 || strings.HasPrefix(a, "R:") {
				t = append(t, a)
			}
		}
		al = t
	}
	return al
}

func sortStrings(a []string) {
	for i := 1; i < len(a); i++ {
		for j := i; j > 0 && a[j] < a[j-1]; j-- {
			a[j], a[j-1] = a[j-1], a[j]
		}
	}
}

func genXR(r *Rand, tier string, emit func(string)) {
	nStreams, depth, nRandom, maxLen := 6, 3, 1500, 30
	if tier == "thorough" {
		nStreams, depth, nRandom, maxLen = 24, 4, 20000, 300
	}
	// fixed streams: test vectors with empty chunks and several indexes
	fixed := []string{
		"0d008705000048c82a51e8ff37dbf1",
		"000000ffff000000ffff34c086050020916cb2a50bd20369da192deaff3bda05f81dc08605002021ab44219b4aff7fd6de3bf8",
		"04c086050020191d53a1a508c9e8ff5bda7bf83cc08605002019293a24a55464a585faff9bf600f804c08605002019493a2494d050560afd7f4c7bfb25008705000048c82a51e880f4ff834df0",
	}
	// regression scenarios for the repaired defects D1 (two in-chunk seeks) and D2 (empty buffer)
	{
		data := make([]byte, 1000)
		for i := range data {
			data[i] = byte(i * 7)
		}
		s, p, _ := buildXflate(xwCfg{level: 6, chunk: 400, index: 0}, []xwOp{{kind: 'W', data: data}})
		for _, ops := range []string{"S:100:0|S:200:0|R:4", "R:0|R:1", "S:100:0|R:0|S:50:1|S:7:1|R:3|S:399:0|S:1:1|R:5", "S:5:0|S:10:1|S:380:1|S:3:1|R:10"} {
			emit(fmt.Sprintf("xr stream=%s plain=%s ops=%s", hx(s), hx(p), ops))
		}
	}
	// chunks whose compressed size straddles the 4096-byte reads of the inflater's
	// bufio.Reader by 0..9 bytes: the sync marker is then split over two reads
	for c := int64(4083); c <= 4092; c++ {
		lvl := []int{0, 1, 6}[c%3]
		s, p, err := buildXflate(xwCfg{level: lvl, chunk: c, index: 0}, []xwOp{{kind: 'W', data: r.Bytes(int(c) + 700)}})
		if err != nil {
			continue
		}
		for _, ops := range []string{"R:100000|R:100000|R:1", fmt.Sprintf("S:%d:0|R:50|R:100000|R:5", c-20), fmt.Sprintf("S:%d:0|R:9|S:-30:2|R:100", c)} {
			emit(fmt.Sprintf("xr stream=%s plain=%s ops=%s", hx(s), hx(p), ops))
		}
	}
	// targets that overflow int64: bytes.Reader rejects them and keeps its position
	{
		data := r.Bytes(700)
		s, p, _ := buildXflate(xwCfg{level: 6, chunk: 100, index: 0}, []xwOp{{kind: 'W', data: data}})
		for _, ops := range []string{
			"S:9223372036854775807:0|S:1:1|R:5", "S:9223372036854775807:2|R:5", "R:30|S:9223372036854775800:1|R:5",
			"S:9223372036854775807:0|S:9223372036854775807:1|S:3:0|R:4", "S:-9223372036854775808:1|R:3", "S:-9223372036854775808:2|R:3",
		} {
			emit(fmt.Sprintf("xr nomodel=1 stream=%s plain=%s ops=%s", hx(s), hx(p), ops))
		}
	}
	streams := genXrStreams(r, nStreams, 300)
	for _, h := range fixed {
		streams = append(streams, xrStream{stream: unhx(h)})
	}
	// exhaustive short sequences over the boundary alphabet, on the smallest streams
	for si, st := range streams {
		d := depth
		if si >= 2 && si < len(streams)-len(fixed) {
			d = depth - 1
		}
		al := xrAlphabet(r, st, d >= 4)
		// bound the size of the exhaustive part whatever streams the seed produced: a depth whose
		// scenario lines would exceed the budget is lowered (a big stream under a 40-letter
		// alphabet at depth 3 is several hundred megabytes of lines)
		budget := 24 << 20
		if tier == "thorough" {
			budget = 400 << 20
		}
		for d > 1 {
			cost := 2 * (len(st.stream) + len(st.plain) + 40)
			for k := 0; k < d; k++ {
				cost *= len(al)
				if cost > budget {
					break
				}
			}
			if cost <= budget {
				break
			}
			d--
		}
		var rec func(prefix []string, k int)
		rec = func(prefix []string, k int) {
			if k == 0 {
				emit(fmt.Sprintf("xr stream=%s plain=%s ops=%s", hx(st.stream), hx(st.plain), strings.Join(prefix, "|")))
				return
			}
			for _, a := range al {
				rec(append(prefix, a), k-1)
			}
		}
		rec(nil, d)
	}
	// random long sequences, on larger streams too
	big := genXrStreams(r, nStreams, 3000)
	all := append(streams, big...)
	for i := 0; i < nRandom; i++ {
		st := all[r.Intn(len(all))]
		al := xrAlphabet(r, st, false)
		n := 1 + r.Intn(maxLen)
		var ops []string
		for j := 0; j < n; j++ {
			switch x := r.Intn(20); {
			case x == 0:
				ops = append(ops, "C")
			case x < 8:
				ops = append(ops, fmt.Sprintf("R:%d", r.Intn(int(len(st.plain))+10)))
			case x < 12:
				ops = append(ops, fmt.Sprintf("S:%d:%d", int64(r.Intn(len(st.plain)+3))-1, 0))
			default:
				ops = append(ops, al[r.Intn(len(al))])
			}
		}
		rsKind := ""
		if i%4 == 3 {
			rsKind = "rs=dataeof " // the ReadSeeker reports io.EOF together with the last bytes
		}
		emit(fmt.Sprintf("xr %sstream=%s plain=%s ops=%s", rsKind, hx(st.stream), hx(st.plain), strings.Join(ops, "|")))
	}
}

// genXK: streams from the real Writer with one bit flipped inside a chunk (the index stays
// intact, so NewReader succeeds): failures surface in the skip-forward phase after a Seek
// into the chunk, in the middle of a sequential read, at the chunk's end.
func genXK(r *Rand, tier string, emit func(string)) {
	n := 40
	if tier == "thorough" {
		n = 600
	}
	for made := 0; made < n; {
		cfg := randXwCfg(r)
		if cfg.chunk != 0 && cfg.chunk < 50 {
			cfg.chunk = 50 + int64(r.Intn(400))
		}
		s, p, err := buildXflate(cfg, randXwOps(r, 6, 600))
		if err != nil {
			continue
		}
		xr, err := xflate.NewReader(bytes.NewReader(s), nil)
		if err != nil {
			continue
		}
		recs := xr.VerifRecords()
		var cand []int
		for j, rec := range recs {
			prev := int64(0)
			if j > 0 {
				prev = recs[j-1].CompOffset
			}
			if rec.Type == 1 && rec.CompOffset-prev >= 12 {
				cand = append(cand, j)
			}
		}
		if len(cand) == 0 {
			continue
		}
		j := cand[r.Intn(len(cand))]
		var prevC, prevR int64
		if j > 0 {
			prevC, prevR = recs[j-1].CompOffset, recs[j-1].RawOffset
		}
		c := append([]byte(nil), s...)
		at := prevC + 1 + int64(r.Intn(int(recs[j].CompOffset-prevC-6)))
		c[at] ^= 1 << uint(r.Intn(8))
		if _, err := xflate.NewReader(bytes.NewReader(c), nil); err != nil {
			continue
		}
		made++
		hi := recs[j].RawOffset
		for _, ops := range []string{
			fmt.Sprintf("S:%d:0|R:5|C|R:1", max(prevR, hi-1)),
			fmt.Sprintf("S:%d:0|R:5|R:5|S:0:0|R:3|C", max(prevR, hi-2)),
			fmt.Sprintf("S:%d:0|R:100000|R:1|C|C", prevR+(hi-prevR)/2),
			"R:100000|R:100000|C|R:1",
			fmt.Sprintf("R:7|S:%d:1|R:9|C", (hi-prevR)/2),
			fmt.Sprintf("S:%d:0|R:1|S:%d:0|R:4|C", hi, max(prevR, hi-1)),
		} {
			emit(fmt.Sprintf("xr corrupt=1 stream=%s plain=%s ops=%s", hx(c), hx(p), ops))
		}
		for q := 0; q < 4; q++ {
			var ops []string
			for k := 1 + r.Intn(8); k > 0; k-- {
				switch r.Intn(5) {
				case 0:
					ops = append(ops, "C")
				case 1, 2:
					ops = append(ops, fmt.Sprintf("S:%d:0", prevR+int64(r.Intn(int(hi-prevR)+2))-1))
				default:
					ops = append(ops, fmt.Sprintf("R:%d", r.Pick([]int{0, 1, 9, 100000})))
				}
			}
			emit(fmt.Sprintf("xr corrupt=1 stream=%s plain=%s ops=%s", hx(c), hx(p), strings.Join(ops, "|")))
		}
	}
}

func init() {
	register(&Family{
		Name: "xk",
		Rule: "xflate.Reader Seek/Read/Close sequences on streams from the real Writer with one bit flipped inside a chunk (index intact): seeks to the last bytes of the damaged chunk (failure in the skip-forward phase), sequential reads through it, seeks away and back, Close after the failure, random sequences. Compared call by call with the Reader model over the measured per-segment inflater behaviour; failure contract (class, sticky, Close result) evaluated on the trace. Distinct by (stream prefix, ops)",
		Gen:  genXK,
		Exec: execXR,
	})
	register(&Family{
		Name: "xr",
		Rule: "xflate.Reader op sequences (Seek/Read/Close) on streams written by the real Writer with random configuration and flush schedule plus fixed vectors with empty chunks and several indexes: all sequences up to a fixed depth over a boundary-value alphabet, then random sequences; a scenario is non-trivial when the stream has >= 3 records and >= 2 ops; distinct = distinct (stream prefix, op sequence)",
		Gen:  genXR,
		Exec: execXR,
	})
}
