package main

// Family "fl": DEFLATE decoding (C01): dsnet flate.Reader vs the Lean RFC 1951
// specification (correspondence) and vs Go compress/flate and zlib (oracle).

import (
	"bytes"
	"compress/flate"
	"fmt"
	"io"
	"strconv"
	"strings"

	dflate "github.com/dsnet/compress/flate"

	cflate "github.com/dsnet/compress/internal/cgo/flate"
)

var flLenBase = []int{3, 4, 5, 6, 7, 8, 9, 10, 11, 13, 15, 17, 19, 23, 27, 31, 35, 43, 51, 59, 67, 83, 99, 115, 131, 163, 195, 227, 258}
var flLenExtra = []uint{0, 0, 0, 0, 0, 0, 0, 0, 1, 1, 1, 1, 2, 2, 2, 2, 3, 3, 3, 3, 4, 4, 4, 4, 5, 5, 5, 5, 0}
var flDistBase = []int{1, 2, 3, 4, 5, 7, 9, 13, 17, 25, 33, 49, 65, 97, 129, 193, 257, 385, 513, 769, 1025, 1537, 2049, 3073, 4097, 6145, 8193, 12289, 16385, 24577}
var flDistExtra = []uint{0, 0, 0, 0, 1, 1, 2, 2, 3, 3, 4, 4, 5, 5, 6, 6, 7, 7, 8, 8, 9, 9, 10, 10, 11, 11, 12, 12, 13, 13}
var flClenOrder = []int{16, 17, 18, 0, 8, 7, 9, 6, 10, 5, 11, 4, 12, 3, 13, 2, 14, 1, 15}

// lensOver assigns a (mostly) complete length vector to a random subset of n symbols.
func lensOver(r *Rand, n, used, limit int, must []int) []int {
	lens := make([]int, n)
	if used > n {
		used = n
	}
	pick := map[int]bool{}
	for _, m := range must {
		if m < n {
			pick[m] = true
		}
	}
	for len(pick) < used {
		pick[r.Intn(n)] = true
	}
	var syms []int
	for s := 0; s < n; s++ {
		if pick[s] {
			syms = append(syms, s)
		}
	}
	if len(syms) == 1 {
		lens[syms[0]] = 1
		return lens
	}
	cl := randCompleteLens(r, len(syms), limit)
	for i, s := range syms {
		if i < len(cl) {
			lens[s] = cl[i]
		}
	}
	return lens
}

// synthDenseDeflate builds one final dynamic block whose literal/length code uses 257 or more
// symbols with a SHORT end-of-block code and long codes for everything else (shape 0: EOB 1 bit +
// 256 symbols of 9 bits; shape 1: EOB 2 bits, one more 2-bit symbol, 256 symbols of 9 bits), some
// literals unused, followed by `nlits` literals and the end-of-block code - so that the end of the
// stream falls at every bit alignment.  A reader that estimates the bits it may pull before the
// end-of-block code from anything but that code's own length over-reads a ReadByte-only source.
func synthDenseDeflate(r *Rand, shape, nlits int) []byte {
	w := &bitW{}
	w.bit(1)
	w.bits(2, 2)
	nlit := 286
	litLens := make([]int, nlit)
	cand := []int{}
	for s := 0; s < nlit; s++ {
		if s != 256 {
			cand = append(cand, s)
		}
	}
	// drop 29 symbols (at least one literal among them) so that 256 remain
	drop := map[int]bool{r.Intn(256): true}
	for len(drop) < len(cand)-256 {
		drop[cand[r.Intn(len(cand))]] = true
	}
	var used []int
	for _, s := range cand {
		if !drop[s] {
			used = append(used, s)
		}
	}
	if shape == 0 {
		litLens[256] = 1
		for _, s := range used {
			litLens[s] = 9
		}
	} else {
		litLens[256] = 2
		litLens[used[len(used)-1]] = 2 // a length symbol (or a high literal) with a 2-bit code
		extra := cand[0]
		for _, s := range cand {
			if drop[s] && s < 256 {
				extra = s
			}
		}
		_ = extra
		for _, s := range used[:len(used)-1] {
			litLens[s] = 9
		}
		// 1/4 + 1/4 + 255/512 leaves 1/512: one more 9-bit symbol taken from the dropped ones
		for _, s := range cand {
			if drop[s] && s != 256 {
				litLens[s] = 9
				break
			}
		}
	}
	ndist := 1
	distLens := []int{0}
	all := append(append([]int{}, litLens...), distLens...)
	type cl struct {
		sym   int
		extra uint64
		nb    uint
	}
	var seq []cl
	for i := 0; i < len(all); {
		run := 1
		for i+run < len(all) && all[i+run] == all[i] {
			run++
		}
		switch {
		case i > 0 && all[i-1] == all[i] && run >= 3 && all[i] != 0:
			n := min(run, 6)
			seq = append(seq, cl{16, uint64(n - 3), 2})
			i += n
		case all[i] == 0 && run >= 3:
			n := min(run, 10)
			seq = append(seq, cl{17, uint64(n - 3), 3})
			i += n
		default:
			seq = append(seq, cl{all[i], 0, 0})
			i++
		}
	}
	usedCl := map[int]bool{}
	for _, c := range seq {
		usedCl[c.sym] = true
	}
	var clSyms []int
	for s := 0; s < 19; s++ {
		if usedCl[s] {
			clSyms = append(clSyms, s)
		}
	}
	clLens := make([]int, 19)
	ll := randCompleteLens(r, len(clSyms), 7)
	for i, s := range clSyms {
		clLens[s] = ll[i]
	}
	hclen := 4
	for i, s := range flClenOrder {
		if clLens[s] != 0 && i+1 > hclen {
			hclen = i + 1
		}
	}
	w.bits(uint64(nlit-257), 5)
	w.bits(uint64(ndist-1), 5)
	w.bits(uint64(hclen-4), 4)
	for _, s := range flClenOrder[:hclen] {
		w.bits(uint64(clLens[s]), 3)
	}
	clCodes := canonCodes(clLens)
	for _, c := range seq {
		w.code(clCodes[c.sym], uint(clLens[c.sym]))
		w.bits(c.extra, c.nb)
	}
	litCodes := canonCodes(litLens)
	var lits []int
	for s := 0; s < 256; s++ {
		if litLens[s] > 0 {
			lits = append(lits, s)
		}
	}
	for i := 0; i < nlits; i++ {
		s := lits[r.Intn(len(lits))]
		w.code(litCodes[s], uint(litLens[s]))
	}
	w.code(litCodes[256], uint(litLens[256]))
	w.align()
	return w.buf
}

// synthDeflate builds one synthetic DEFLATE stream of 1-3 blocks.
func synthDeflate(r *Rand) []byte {
	w := &bitW{}
	nblocks := 1 + r.Intn(3)
	hist := 0
	var prevDistSyms, prevDistLens []int
	var prevDistCodes []uint32
	for b := 0; b < nblocks; b++ {
		final := uint(0)
		if b == nblocks-1 && r.Intn(12) != 0 {
			final = 1
		}
		w.bit(final)
		switch t := r.Intn(10); {
		case t == 0: // stored
			w.bits(0, 2)
			if r.Intn(10) == 0 {
				for w.nbit%8 != 0 {
					w.bit(uint(r.Intn(2))) // non-zero padding is legal
				}
			} else {
				w.align()
			}
			n := r.Intn(40)
			w.bits(uint64(n), 16)
			nn := ^uint16(n)
			if r.Intn(15) == 0 {
				nn ^= 1 << uint(r.Intn(16))
			}
			w.bits(uint64(nn), 16)
			for i := 0; i < n; i++ {
				w.bits(r.U64(), 8)
			}
			hist += n
		case t == 1: // reserved type
			w.bits(3, 2)
		default:
			var litLens, distLens []int
			if t < 4 { // fixed
				w.bits(1, 2)
				litLens = make([]int, 288)
				for i := range litLens {
					switch {
					case i < 144:
						litLens[i] = 8
					case i < 256:
						litLens[i] = 9
					case i < 280:
						litLens[i] = 7
					default:
						litLens[i] = 8
					}
				}
				distLens = make([]int, 32)
				for i := range distLens {
					distLens[i] = 5
				}
			} else {
				w.bits(2, 2)
				nlit := 257 + r.Intn(30)
				if r.Intn(25) == 0 {
					nlit = 287 + r.Intn(2)
				}
				ndist := 1 + r.Intn(30)
				if r.Intn(25) == 0 {
					ndist = 31 + r.Intn(2)
				}
				must := []int{256}
				if r.Intn(20) == 0 {
					must = nil
				}
				litLens = lensOver(r, nlit, 2+r.Intn(40), 7+r.Intn(9), must)
				switch r.Intn(8) {
				case 0, 2:
					distLens = make([]int, ndist) // no distance codes
				case 1:
					distLens = make([]int, ndist)
					distLens[r.Intn(ndist)] = 1 + r.Intn(2)*r.Intn(3) // single code, usually 1 bit
				default:
					distLens = lensOver(r, ndist, 1+r.Intn(ndist), 5+r.Intn(11), nil)
				}
				switch r.Intn(14) { // perturb: incomplete / over-subscribed
				case 0:
					litLens[r.Intn(len(litLens))] = 1 + r.Intn(15)
				case 1:
					distLens[r.Intn(len(distLens))] = 1 + r.Intn(15)
				}
				all := append(append([]int{}, litLens...), distLens...)
				// run-length encode the lengths with random legal (and sometimes illegal) choices
				type cl struct {
					sym   int
					extra uint64
					nb    uint
				}
				var seq []cl
				for i := 0; i < len(all); {
					run := 1
					for i+run < len(all) && all[i+run] == all[i] {
						run++
					}
					switch {
					case all[i] == 0 && run >= 11 && r.Intn(4) != 0:
						n := 11 + r.Intn(min(run, 138)-10)
						seq = append(seq, cl{18, uint64(n - 11), 7})
						i += n
					case all[i] == 0 && run >= 3 && r.Intn(4) != 0:
						n := 3 + r.Intn(min(run, 10)-2)
						seq = append(seq, cl{17, uint64(n - 3), 3})
						i += n
					case i > 0 && all[i-1] == all[i] && run >= 3 && r.Intn(3) != 0:
						// code 16 repeats the previous length, including a previous zero
						n := 3 + r.Intn(min(run, 6)-2)
						seq = append(seq, cl{16, uint64(n - 3), 2})
						i += n
					default:
						seq = append(seq, cl{all[i], 0, 0})
						i++
					}
				}
				switch r.Intn(40) {
				case 0:
					seq = append([]cl{{16, 0, 2}}, seq...) // repeat with nothing before it
				case 1:
					seq = append(seq, cl{18, 127, 7}) // runs past the end
				case 2:
					if len(seq) > 2 {
						seq = seq[:len(seq)-1] // too few lengths: decoder keeps reading
					}
				}
				usedCl := map[int]bool{}
				for _, c := range seq {
					usedCl[c.sym] = true
				}
				var clSyms []int
				for s := 0; s < 19; s++ {
					if usedCl[s] {
						clSyms = append(clSyms, s)
					}
				}
				clLens := make([]int, 19)
				if len(clSyms) == 1 {
					clLens[clSyms[0]] = 1
				} else {
					ll := randCompleteLens(r, len(clSyms), 7)
					for i, s := range clSyms {
						clLens[s] = ll[i]
					}
				}
				if r.Intn(30) == 0 {
					clLens[r.Intn(19)] = r.Intn(8)
				}
				hclen := 4
				for i, s := range flClenOrder {
					if clLens[s] != 0 && i+1 > hclen {
						hclen = i + 1
					}
				}
				w.bits(uint64(nlit-257), 5)
				w.bits(uint64(ndist-1), 5)
				w.bits(uint64(hclen-4), 4)
				for _, s := range flClenOrder[:hclen] {
					w.bits(uint64(clLens[s]), 3)
				}
				clCodes := canonCodes(clLens)
				for _, c := range seq {
					w.code(clCodes[c.sym], uint(clLens[c.sym]))
					w.bits(c.extra, c.nb)
				}
			}
			litCodes, distCodes := canonCodes(litLens), canonCodes(distLens)
			var litSyms, lenSyms, distSyms []int
			for s, l := range litLens {
				if l > 0 && s < 256 {
					litSyms = append(litSyms, s)
				} else if l > 0 && s > 256 {
					lenSyms = append(lenSyms, s)
				}
			}
			for s, l := range distLens {
				if l > 0 {
					distSyms = append(distSyms, s)
				}
			}
			nsym := r.Intn(60)
			for i := 0; i < nsym; i++ {
				if len(lenSyms) > 0 && len(distSyms) == 0 && hist > 0 && r.Intn(8) == 0 {
					// a length symbol in a block that declares no distance codes (invalid): followed by
					// a code word of the PREVIOUS block's distance tree, which a decoder must not remember
					ls := lenSyms[r.Intn(len(lenSyms))]
					w.code(litCodes[ls], uint(litLens[ls]))
					if ls-257 < len(flLenBase) {
						w.bits(0, flLenExtra[ls-257])
					}
					if len(prevDistSyms) > 0 {
						ds := prevDistSyms[r.Intn(len(prevDistSyms))]
						w.code(prevDistCodes[ds], uint(prevDistLens[ds]))
						if ds < 30 {
							w.bits(0, flDistExtra[ds])
						}
					} else {
						w.bits(r.U64(), 5)
					}
					continue
				}
				if len(lenSyms) > 0 && len(distSyms) > 0 && hist > 0 && r.Intn(3) == 0 {
					ls := lenSyms[r.Intn(len(lenSyms))]
					w.code(litCodes[ls], uint(litLens[ls]))
					le := uint64(0)
					ln := 258
					if ls-257 < len(flLenBase) {
						le = r.U64() & (1<<flLenExtra[ls-257] - 1)
						w.bits(le, flLenExtra[ls-257])
						ln = flLenBase[ls-257] + int(le)
					}
					// prefer distances within the history
					ds := distSyms[r.Intn(len(distSyms))]
					for try := 0; try < 6 && ds < 30 && flDistBase[ds] > hist; try++ {
						ds = distSyms[r.Intn(len(distSyms))]
					}
					w.code(distCodes[ds], uint(distLens[ds]))
					if ds < 30 {
						de := r.U64() & (1<<flDistExtra[ds] - 1)
						if flDistBase[ds]+int(de) > hist && r.Intn(10) != 0 {
							de = 0
						}
						w.bits(de, flDistExtra[ds])
					}
					hist += ln
				} else if len(litSyms) > 0 {
					s := litSyms[r.Intn(len(litSyms))]
					w.code(litCodes[s], uint(litLens[s]))
					hist++
				}
			}
			if litLens[256] > 0 && r.Intn(25) != 0 {
				w.code(litCodes[256], uint(litLens[256]))
			}
			if len(distSyms) > 0 {
				prevDistSyms, prevDistCodes, prevDistLens = distSyms, distCodes, distLens
			}
		}
	}
	if r.Intn(6) == 0 { // trailing bytes after the stream
		w.align()
		for i := r.Intn(4); i > 0; i-- {
			w.bits(r.U64(), 8)
		}
	}
	return w.buf
}

func zlibInflateAll(b []byte) ([]byte, error) {
	zr := cflate.NewReader(bytes.NewReader(b))
	out, err := io.ReadAll(zr)
	zr.Close()
	return out, err
}

func commonPrefixOK(a, b []byte) bool {
	n := min(len(a), len(b))
	return bytes.Equal(a[:n], b[:n])
}

func execFl(o *Out, id, line string) {
	_, kv := parseLine(line)
	in := unhx(kv["in"])
	out, unread, err := dsnetInflateAllOff(in)
	cls := errClass(err)
	res := hx(out) + ":" + cls
	if err == nil {
		res = fmt.Sprintf("%s:eof:%d", hx(out), len(in)-unread)
	}
	o.Count("dsnet-" + cls)
	if len(in) > 2 { // the 65k exhaustive short strings add nothing here
		memOracle(o, line, "flate", 4<<20, 1024, len(in), func() int {
			zr, _ := dflate.NewReader(bytes.NewReader(in), nil)
			return drain(zr)
		})
	}
	key := ""
	if len(out) > 0 || err == nil {
		key = kv["in"]
	}
	o.Emit(id, line, "fl id="+id+" in="+hx(in), res, key)
	// the Go-shaped Lean model driven by a schedule of Read sizes (derived from the input);
	// in the quick tier only one in eight of the tiny exhaustive inputs takes this second pass
	// (and inputs above 6000 bytes are left to the specification: the array-based window model copies
	// its buffer on every match when it is not uniquely referenced, which makes them slow in the driver)
	if len(in) <= 6000 && (o.tier == "thorough" || len(in) > 2 || (len(in) == 2 && in[1]%8 == 0) || len(in) < 2) {
		h := uint64(len(in))*0x9e3779b97f4a7c15 + 7
		for _, b := range in[:min(len(in), 16)] {
			h = (h ^ uint64(b)) * 1099511628211
		}
		rr := NewRand(h)
		var sched []int
		for k := 1 + rr.Intn(6); k > 0; k-- {
			sched = append(sched, rr.Pick([]int{0, 1, 1, 2, 3, 7, 100, 4096, 40000}))
		}
		if sched[len(sched)-1] == 0 {
			sched = append(sched, 1+rr.Intn(5000))
		}
		zr, _ := dflate.NewReader(bytes.NewReader(in), nil)
		var got []byte
		var rerr error
		for i := 0; rerr == nil; i++ {
			n := sched[min(i, len(sched)-1)]
			buf := make([]byte, n)
			var k int
			k, rerr = zr.Read(buf)
			got = append(got, buf[:k]...)
		}
		var ss []string
		for _, v := range sched {
			ss = append(ss, strconv.Itoa(v))
		}
		inOff := "-"
		if rerr == io.EOF {
			inOff = strconv.FormatInt(zr.InputOffset, 10)
		}
		o.Emit(id+"r", "", "flr id="+id+"r in="+hx(in)+" sched="+strings.Join(ss, ","),
			fmt.Sprintf("%s:%s:%s:%d", hx(got), errClass(rerr), inOff, zr.OutputOffset), "")
		// the same reader model after Reset: a reader that has read some of an earlier stream
		// (one of three canned ones: long enough to fill and wrap the 32 KiB window, short, corrupt)
		// is reset onto `in` - tied to theorem C14_flate_reset_fresh
		// one scenario in ten (quick); thorough: half of the real streams, one in 200 of the millions of
		// exhaustive 3-byte strings
		take := rr.Intn(10) == 0
		if o.tier == "thorough" {
			take = (len(in) > 3 && rr.Intn(2) == 0) || rr.Intn(200) == 0
		}
		if len(in) > 0 && len(in) <= 3000 && take {
			prevs := flCannedPrevs()
			pi := 1 + rr.Intn(len(prevs)-1)
			if rr.Intn(6) == 0 {
				pi = 0 // the long earlier stream is slow in the model: one scenario in six
			}
			pk := rr.Intn(8)
			if pi == 0 && rr.Intn(2) == 0 {
				pk = 12 + rr.Intn(8) // far enough into the long stream for the window to be full
			}
			psched := []int{0, 1, 5, 4096, 40000, 100, 3, 40000}
			zr2, _ := dflate.NewReader(bytes.NewReader(prevs[pi]), nil)
			for i := 0; i < pk; i++ {
				if _, e := zr2.Read(make([]byte, psched[i%len(psched)])); e != nil {
					break
				}
			}
			zr2.Reset(bytes.NewReader(in))
			var got2 []byte
			var rerr2 error
			for i := 0; rerr2 == nil; i++ {
				buf := make([]byte, sched[min(i, len(sched)-1)])
				var k int
				k, rerr2 = zr2.Read(buf)
				got2 = append(got2, buf[:k]...)
			}
			inOff2 := "-"
			if rerr2 == io.EOF {
				inOff2 = strconv.FormatInt(zr2.InputOffset, 10)
			}
			o.Count("flrr-reset")
			o.Emit(id+"s", "", fmt.Sprintf("flrr id=%ss prev=%d pk=%d in=%s sched=%s", id, pi, pk, hx(in), strings.Join(ss, ",")),
				fmt.Sprintf("%s:%s:%s:%d", hx(got2), errClass(rerr2), inOff2, zr2.OutputOffset), "")
			if errClass(rerr2) != errClass(rerr) || !bytes.Equal(got2, got) {
				o.Violate("C14", fmt.Sprintf("flate.Reader after Reset (earlier stream %d, %d reads) differs from a new one: %s/%d bytes vs %s/%d bytes", pi, pk, errClass(rerr2), len(got2), errClass(rerr), len(got)), "flate-reset-differs", line)
			}
		}
		rcls := errClass(rerr)
		if rcls == "eof" {
			rcls = "nil"
		}
		if rcls != cls || (err == nil && !bytes.Equal(got, out)) || !commonPrefixOK(got, out) {
			o.Violate("C10", fmt.Sprintf("Read sizes %v change the result: %s/%d bytes vs %s/%d bytes", sched, errClass(rerr), len(got), cls, len(out)), "read-size-dependent", line)
		}
		if zr.OutputOffset != int64(len(got)) {
			o.Violate("C11", fmt.Sprintf("OutputOffset=%d after delivering %d bytes", zr.OutputOffset, len(got)), "output-offset", line)
		}
	}
	// oracle: Go compress/flate and zlib
	sout, sun, serr := inflateAll(in)
	if (serr == nil) != (err == nil) {
		o.Violate("C01", fmt.Sprintf("dsnet flate.Reader ends with %v, compress/flate with %v", err, serr), "verdict-std", line)
	} else if err == nil && (!bytes.Equal(out, sout) || unread != sun) {
		o.Violate("C01", fmt.Sprintf("both accept; outputs equal=%v, unread %d vs %d", bytes.Equal(out, sout), unread, sun), "output-std", line)
	} else if !commonPrefixOK(out, sout) {
		o.Violate("C01", "bytes delivered before the error differ from compress/flate's", "prefix-std", line)
	}
	if serr == nil && len(in) <= 20000 {
		// exact consumption and source shapes: the stream is in[:L]; whatever follows must stay unread
		L := len(in) - sun
		tr := []byte{0xde, 0xad, 0xbe, 0xef, 0x01}
		for _, src := range []string{"byte", "byteeof", "bytes", "buffer", "bufio16", "bufio4096"} {
			sr := mkSource(src, append(append([]byte{}, in[:L]...), tr...), -1, 0, nil, []int{2, 5})
			zr, _ := dflate.NewReader(sr, nil)
			got, e := io.ReadAll(zr)
			rest, _ := io.ReadAll(sr)
			if e != nil || !bytes.Equal(got, sout) {
				o.Violate("C10", fmt.Sprintf("flate through source %s with a trailer: err=%v equal=%v", src, e, bytes.Equal(got, sout)), "source-shape", line)
				break
			}
			if zr.InputOffset != int64(L) || (!strings.HasPrefix(src, "bufio") && !bytes.Equal(rest, tr)) {
				o.Violate("C11", fmt.Sprintf("flate through source %s: stream of %d bytes, InputOffset=%d, %d bytes left unread (trailer %d)", src, L, zr.InputOffset, len(rest), len(tr)), "over-read", line)
				break
			}
		}
		for _, src := range append([]string{"byte", "byteeof"}, realKinds...) {
			zr, _ := dflate.NewReader(mkSource(src, in[:L], -1, 0, nil, []int{1, 3}), nil)
			got, e := io.ReadAll(zr)
			if e != nil || !bytes.Equal(got, sout) {
				o.Violate("C10", fmt.Sprintf("flate through source %s with nothing after the stream: err=%v equal=%v", src, e, bytes.Equal(got, sout)), "source-shape-at-end", line)
				break
			}
			if zr.InputOffset != int64(L) || zr.OutputOffset != int64(len(sout)) {
				o.Violate("C11", fmt.Sprintf("flate through source %s with nothing after the stream: stream of %d bytes, InputOffset=%d; %d bytes out, OutputOffset=%d", src, L, zr.InputOffset, len(sout), zr.OutputOffset), "counters-at-end", line)
				break
			}
		}
	}
	zout, zerr := zlibInflateAll(in)
	if (zerr == nil) != (err == nil) {
		o.Violate("C01", fmt.Sprintf("dsnet flate.Reader ends with %v, zlib with %v", err, zerr), "verdict-zlib", line)
	} else if err == nil && !bytes.Equal(out, zout) {
		o.Violate("C01", "both accept, outputs differ from zlib's", "output-zlib", line)
	} else if !commonPrefixOK(out, zout) {
		o.Violate("C01", "bytes delivered before the error differ from zlib's", "prefix-zlib", line)
	}
	if cls != "nil" && cls != "corrupt" && cls != "ueof" {
		o.Violate("C09", "flate.Reader failed with class "+cls, "class-"+cls, line)
	}
}

// dsnetInflateAllOff is dsnetInflateAll reading from a Peek-capable source.
var flPrevs [][]byte

// flCannedPrevs: the earlier streams of the reset scenarios (kind flrr); the Lean driver rebuilds
// them from the same recipe (`Compress.Drv.flCannedPrevs`): stored blocks only, so that both
// sides construct identical bytes without a compressor.
func flCannedPrevs() [][]byte {
	if flPrevs != nil {
		return flPrevs
	}
	stored := func(final bool, d []byte) []byte {
		h := byte(0)
		if final {
			h = 1
		}
		n := len(d)
		return append([]byte{h, byte(n), byte(n >> 8), byte(^n), byte(^n >> 8)}, d...)
	}
	// 0: three stored blocks of 20000 bytes (byte i of block b = (7*i+b) mod 251): fills and wraps the window
	var long []byte
	for b := 0; b < 3; b++ {
		d := make([]byte, 20000)
		for i := range d {
			d[i] = byte((7*i + b) % 251)
		}
		long = append(long, stored(b == 2, d)...)
	}
	// 1: one short final stored block; 2: a stored block followed by a reserved block type
	short := stored(true, []byte("hello, reset"))
	bad := append(stored(false, []byte("abcdefgh")), 0x07)
	flPrevs = [][]byte{long, short, bad}
	return flPrevs
}

func dsnetInflateAllOff(b []byte) ([]byte, int, error) { return dsnetInflateAll(b) }

func genFl(r *Rand, tier string, emit func(string)) {
	thorough := tier == "thorough"
	e := func(b []byte) { emit("fl in=" + hx(b)) }
	// exhaustive short strings
	e(nil)
	for a := 0; a < 256; a++ {
		e([]byte{byte(a)})
	}
	for v := 0; v < 65536; v++ {
		e([]byte{byte(v), byte(v >> 8)})
	}
	if thorough {
		for v := 0; v < 1<<24; v += 3 { // a third of the 3-byte strings per run, offset by the seed
			x := v + int(r.s%3)
			e([]byte{byte(x), byte(x >> 8), byte(x >> 16)})
		}
	}
	// encoder output: Go compress/flate at every level with flush patterns; zlib
	n := 150
	if thorough {
		n = 3000
	}
	var valid [][]byte
	for i := 0; i < n; i++ {
		var bb bytes.Buffer
		lvl := r.Pick([]int{-2, -1, 0, 1, 2, 3, 4, 5, 6, 7, 8, 9})
		sz := r.Intn(3000)
		if r.Intn(10) == 0 {
			sz = r.Intn(100000)
		}
		d := r.Bytes(sz)
		if r.Intn(3) == 0 {
			zw := cflate.NewWriter(&bb, r.Intn(10))
			zw.Write(d)
			zw.Close()
		} else {
			zw, _ := flate.NewWriter(&bb, lvl)
			for len(d) > 0 {
				k := 1 + r.Intn(len(d))
				zw.Write(d[:k])
				d = d[k:]
				if r.Intn(3) == 0 {
					zw.Flush()
				}
			}
			zw.Close()
		}
		valid = append(valid, bb.Bytes())
		e(bb.Bytes())
	}
	// synthesised streams
	ns := 3000
	if thorough {
		ns = 60000
	}
	for i := 0; i < ns; i++ {
		s := synthDeflate(r)
		e(s)
		if r.Intn(4) == 0 {
			valid = append(valid, s)
		}
	}
	// dense literal/length codes with a short end-of-block code, the stream ending at every bit alignment
	for shape := 0; shape < 2; shape++ {
		for k := 0; k < 18; k++ {
			e(synthDenseDeflate(r, shape, k))
		}
	}
	// stored blocks that bring the output exactly to (or one byte around) the sizes at which the
	// decoder's history buffer is full, followed by a Huffman block that starts with a literal,
	// a match, or ends at once
	for _, total := range []int{4096, 8192, 16384, 32768, 65536, 98304} {
		for _, delta := range []int{-1, 0, 1} {
			for _, next := range []int{0, 1, 2} {
				n := total + delta
				d := r.Bytes(n)
				var s []byte
				for len(d) > 0 {
					k := min(len(d), 20000+r.Intn(40000))
					s = append(s, 0, byte(k), byte(k>>8), ^byte(k), ^byte(k>>8))
					s = append(s, d[:k]...)
					d = d[k:]
				}
				w := &bitW{}
				w.bit(1)     // BFINAL
				w.bits(1, 2) // fixed Huffman codes
				switch next {
				case 0:
					w.code(0x30+'A', 8) // literal
				case 1:
					w.code(1, 7)    // length 3
					w.code(0, 5)    // distance 1
					w.code(0x30, 8) // literal 0
				}
				w.code(0, 7) // end of block
				w.align()
				e(append(s, w.buf...))
			}
		}
	}
	// mutations and truncations
	nm := 3000
	if thorough {
		nm = 60000
	}
	for i := 0; i < nm; i++ {
		b := append([]byte(nil), valid[r.Intn(len(valid))]...)
		if len(b) > 4000 {
			b = b[:4000]
		}
		switch r.Intn(4) {
		case 0:
			if len(b) > 0 {
				b[r.Intn(len(b))] ^= 1 << uint(r.Intn(8))
			}
		case 1:
			b = b[:r.Intn(len(b)+1)]
		case 2:
			if len(b) > 0 {
				k := r.Intn(min(len(b), 12))
				b[k] ^= 1 << uint(r.Intn(8))
			}
		default:
			b = append(b, r.Bytes(r.Intn(5))...)
		}
		e(b)
	}
}

func init() {
	register(&Family{
		Name: "fl",
		Rule: "DEFLATE inputs: every string of <= 2 bytes (thorough: plus a third of the 3-byte strings), output of compress/flate at levels -2..9 with random write/flush splits and of zlib at levels 0..9, bit-level synthesised streams (stored/fixed/dynamic/reserved blocks; random HLIT/HDIST incl. 287/288 and 31/32; complete, single-code, empty, incomplete and over-subscribed codes; repeat codes 16/17/18 incl. 16 after a zero run, first-position 16 and overruns; distances beyond the history; missing end-of-block; trailing bytes), and bit flips / truncations / extensions of those. Non-trivial = produced output or was accepted; distinct by input bytes. " + strings.TrimSpace("Each input is decoded by dsnet flate.Reader, the Lean RFC 1951 specification, Go compress/flate and zlib."),
		Gen:  genFl,
		Exec: execFl,
	})
}
