// Command zverif is the correspondence and oracle harness: it generates
// scenarios from one PRNG state, runs them against the real dsnet/compress
// code in-process, prints what the implementation did (one line per
// scenario), derives the line the Lean model driver consumes, and evaluates
// each property's own predicate on the implementation (the oracle).
package main

import (
	"bufio"
	"encoding/hex"
	"encoding/json"
	"fmt"
	"io"
	"os"
	"path/filepath"
	"sort"
	"strings"
	"time"

	"github.com/dsnet/compress"
	cerrors "github.com/dsnet/compress/internal/errors"
)

// Rand is splitmix64; every random choice of a run derives from one seed.
type Rand struct{ s uint64 }

func NewRand(seed uint64) *Rand { return &Rand{s: seed*0x9e3779b97f4a7c15 + 0x1234567} }

func (r *Rand) U64() uint64 {
	r.s += 0x9e3779b97f4a7c15
	z := r.s
	z = (z ^ (z >> 30)) * 0xbf58476d1ce4e5b9
	z = (z ^ (z >> 27)) * 0x94d049bb133111eb
	return z ^ (z >> 31)
}
func (r *Rand) Intn(n int) int {
	if n <= 0 {
		return 0
	}
	return int(r.U64() % uint64(n))
}
func (r *Rand) Bool() bool        { return r.U64()&1 == 1 }
func (r *Rand) Pick(xs []int) int { return xs[r.Intn(len(xs))] }
func (r *Rand) Fork() *Rand       { return &Rand{s: r.U64()} }

// Bytes returns n bytes of one of several textures (random, low entropy,
// runs, text-like), so that compressors produce all block kinds.
func (r *Rand) Bytes(n int) []byte {
	b := make([]byte, n)
	switch r.Intn(5) {
	case 0:
		for i := range b {
			b[i] = byte(r.U64())
		}
	case 1:
		for i := range b {
			b[i] = byte('a' + r.Intn(4))
		}
	case 2:
		i := 0
		for i < n {
			c, l := byte(r.U64()), 1+r.Intn(300)
			for ; l > 0 && i < n; l-- {
				b[i] = c
				i++
			}
		}
	case 3:
		words := []string{"the ", "quick ", "brown ", "fox ", "jumps ", "over ", "lazy ", "dog ", "\n"}
		i := 0
		for i < n {
			i += copy(b[i:], words[r.Intn(len(words))])
		}
	default:
		for i := range b {
			b[i] = byte(i * 7)
		}
	}
	return b
}

func hx(b []byte) string {
	if len(b) == 0 {
		return "-"
	}
	return hex.EncodeToString(b)
}

func unhx(s string) []byte {
	if s == "-" || s == "" {
		return nil
	}
	b, err := hex.DecodeString(s)
	if err != nil {
		panic("bad hex in scenario: " + err.Error())
	}
	return b
}

// errClass maps an error to the small enum shared with the Lean driver.
func errClass(err error) string {
	switch {
	case err == nil:
		return "nil"
	case err == io.EOF:
		return "eof"
	case err == io.ErrUnexpectedEOF:
		return "ueof"
	}
	if _, ok := err.(compress.Error); ok {
		switch {
		case cerrors.IsCorrupted(err):
			return "corrupt"
		case cerrors.IsDeprecated(err):
			return "deprecated"
		case cerrors.IsClosed(err):
			return "closed"
		case cerrors.IsInvalid(err):
			return "invalid"
		case cerrors.IsInternal(err):
			return "internal"
		}
		return "cerr-unknown"
	}
	if ie, ok := err.(*injErr); ok {
		return fmt.Sprintf("other%d", ie.tag)
	}
	return "other0"
}

// injected is the error a faulting source or sink returns for a tag. Tags from 100 on are not
// the token error but values a real sink or source can return and that this repository's own
// handlers also use as their "closed" marker: a dsnet Closed-coded error (what a closed dsnet
// Reader or Writer placed underneath returns), and io.ErrClosedPipe (a closed io.Pipe end).
func injected(tag int) error {
	switch tag {
	case 100:
		return cerrors.Error{Code: cerrors.Closed, Pkg: "xflate"}
	case 101:
		return cerrors.Error{Code: cerrors.Closed, Pkg: "bzip2"}
	case 102:
		return cerrors.Error{Code: cerrors.Closed, Pkg: "meta"}
	case 103:
		return cerrors.Error{Code: cerrors.Closed, Pkg: "flate"}
	case 104:
		return io.ErrClosedPipe
	}
	return &injErr{tag}
}

func isInjected(err error, tag int) bool {
	if ie, ok := err.(*injErr); ok {
		return ie.tag == tag
	}
	return tag >= 100 && err == injected(tag)
}

// closedTag is the tag whose injected error equals the closed marker of the package.
func closedTag(typ string) int {
	return map[string]int{"xflate": 100, "bzip2": 101, "meta": 102, "flate": 103, "brotli": 104}[typ]
}

// injErr is the token error injected by faulting sources and sinks.
type injErr struct{ tag int }

func (e *injErr) Error() string { return fmt.Sprintf("injected error %d", e.tag) }

// kv parsing of scenario lines: "kind k=v k=v".
func parseLine(line string) (kind string, kv map[string]string) {
	f := strings.Fields(line)
	kv = map[string]string{}
	if len(f) == 0 {
		return "", kv
	}
	for _, t := range f[1:] {
		if i := strings.IndexByte(t, '='); i > 0 {
			kv[t[:i]] = t[i+1:]
		}
	}
	return f[0], kv
}

// Violation is one failing scenario of a property's oracle.
type Violation struct {
	Property string `json:"property"`
	Family   string `json:"family"`
	What     string `json:"what"`
	Sig      string `json:"signature"` // stable identification for known_findings matching
	Input    string `json:"input"`     // the replayable input scenario line
}

// Out collects everything one family run produces.
type Out struct {
	perSig map[string]int
	family     string
	tier       string
	in         *bufio.Writer // replayable input scenarios
	scn        *bufio.Writer // lines for the Lean driver
	impl       *bufio.Writer // what the implementation did
	Stats      map[string]int
	Samples    []string
	Violations []Violation
	Evals      int
	distinct   map[string]bool
	nid        int
	Hangs      int // calls that never returned; each leaves a spinning goroutine behind
	files      []*os.File
}

func NewOut(dir, family string) *Out {
	os.MkdirAll(dir, 0o755)
	o := &Out{family: family, Stats: map[string]int{}, distinct: map[string]bool{}}
	mk := func(ext string) *bufio.Writer {
		f, err := os.Create(filepath.Join(dir, family+ext))
		if err != nil {
			panic(err)
		}
		o.files = append(o.files, f)
		return bufio.NewWriterSize(f, 1<<20)
	}
	o.in, o.scn, o.impl = mk(".in"), mk(".scn"), mk(".impl")
	return o
}

func (o *Out) NextID() string { o.nid++; return fmt.Sprintf("%s%d", o.family, o.nid) }
func (o *Out) Count(k string) { o.Stats[k]++ }

// Emit records one executed scenario. nontrivialKey == "" means trivial.
func (o *Out) Emit(id, inLine, scnLine, implOut, nontrivialKey string) {
	o.Evals++
	if inLine != "" {
		fmt.Fprintln(o.in, inLine)
	}
	if scnLine != "" {
		fmt.Fprintln(o.scn, scnLine)
		fmt.Fprintf(o.impl, "%s %s\n", id, implOut)
	}
	if nontrivialKey != "" {
		o.distinct[nontrivialKey] = true
	}
	if len(o.Samples) < 3 && len(inLine) < 600 && inLine != "" {
		o.Samples = append(o.Samples, inLine)
	}
}

func (o *Out) Violate(prop, what, sig, input string) {
	if strings.HasSuffix(sig, "-hang") {
		o.Hangs++
	}
	// keep at most 5 per (property, signature) so that a flood of one finding
	// cannot crowd out a different one
	if o.perSig == nil {
		o.perSig = map[string]int{}
	}
	o.perSig[prop+"/"+sig]++
	if o.perSig[prop+"/"+sig] <= 5 && len(o.Violations) < 400 {
		o.Violations = append(o.Violations, Violation{prop, o.family, what, sig, input})
	}
}

func (o *Out) Close(dir string, extra map[string]interface{}) {
	o.in.Flush()
	o.scn.Flush()
	o.impl.Flush()
	for _, f := range o.files {
		f.Close()
	}
	keys := make([]string, 0, len(o.Stats))
	for k := range o.Stats {
		keys = append(keys, k)
	}
	sort.Strings(keys)
	st := map[string]interface{}{
		"family":              o.family,
		"evaluations":         o.Evals,
		"distinct_nontrivial": len(o.distinct),
		"distribution":        o.Stats,
		"samples":             o.Samples,
		"violations":          o.Violations,
	}
	for k, v := range extra {
		st[k] = v
	}
	b, _ := json.MarshalIndent(st, "", " ")
	os.WriteFile(filepath.Join(dir, o.family+".stats.json"), b, 0o644)
}

// Family is one scenario family: generate input lines, execute one input line.
type Family struct {
	Name string
	Rule string // how scenarios are generated and what makes one non-trivial
	// Gen writes input scenario lines (without id) for the tier.
	Gen func(r *Rand, tier string, emit func(line string))
	// Exec runs one input line against the implementation.
	Exec func(o *Out, id string, line string)
}

var families = map[string]*Family{}

func register(f *Family) { families[f.Name] = f }

func timeSec(n int) time.Duration { return time.Duration(n) * time.Second }

// outSummary prints an output the way the Lean driver does: the bytes when short,
// otherwise the first 64 bytes, the length and the FNV-1a 64 hash.
func outSummary(b []byte) string {
	if len(b) <= 4096 {
		return hx(b)
	}
	h := uint64(14695981039346656037)
	for _, c := range b {
		h = (h ^ uint64(c)) * 1099511628211
	}
	return fmt.Sprintf("%s..%d..%d", hx(b[:64]), len(b), h)
}
