package main

// Family "win": the sliding-window dictionary (dictDecoder) of flate and
// brotli driven one primitive at a time (serves C01, C02, C08, C10).

import (
	"bytes"
	"fmt"
	"strconv"
	"strings"

	"github.com/dsnet/compress/brotli"
	"github.com/dsnet/compress/flate"
)

type winDict interface {
	Init(int)
	HistSize() int
	AvailSize() int
	WriteCopy(int, int) int
	ReadFlush() []byte
	BufLen() int
	WriteBytes([]byte) int
	PutByte(byte)
}

func execWin(o *Out, id, line string) {
	_, kv := parseLine(line)
	var d winDict
	var fd *flate.VerifDict
	var bd *brotli.VerifDict
	if kv["v"] == "brotli" {
		bd = &brotli.VerifDict{}
		d = bd
	} else {
		fd = &flate.VerifDict{}
		d = fd
	}
	var res []string
	var flushed, spec []byte
	for _, op := range strings.Split(kv["ops"], "|") {
		f := strings.Split(op, ":")
		switch f[0] {
		case "I":
			n, _ := strconv.Atoi(f[1])
			d.Init(n)
			res = append(res, "I")
			flushed, spec = nil, nil
		case "B":
			c, _ := strconv.Atoi(f[1])
			d.PutByte(byte(c))
			spec = append(spec, byte(c))
			res = append(res, "B")
		case "W":
			b := unhx(f[1])
			n := d.WriteBytes(b)
			spec = append(spec, b[:n]...)
			res = append(res, fmt.Sprintf("W:%d", n))
		case "T", "C":
			dist, _ := strconv.Atoi(f[1])
			l, _ := strconv.Atoi(f[2])
			n := 0
			if f[0] == "T" {
				n = fd.TryWriteCopy(dist, l)
			} else {
				n = d.WriteCopy(dist, l)
			}
			for i := 0; i < n; i++ {
				spec = append(spec, spec[len(spec)-dist])
			}
			res = append(res, fmt.Sprintf("%s:%d", f[0], n))
		case "F":
			b := d.ReadFlush()
			flushed = append(flushed, b...)
			res = append(res, "F:"+hx(b))
			if !bytes.Equal(flushed, spec) {
				o.Violate("C01", "window: flushed bytes differ from the append-only LZ77 output", "window-output", line)
			}
		case "H":
			res = append(res, fmt.Sprintf("H:%d:%d:%d", d.HistSize(), d.AvailSize(), d.BufLen()))
		case "L":
			a, b := bd.LastBytes()
			res = append(res, fmt.Sprintf("L:%d:%d", a, b))
			var w1, w2 byte
			if len(spec) > 0 {
				w1 = spec[len(spec)-1]
			}
			if len(spec) > 1 {
				w2 = spec[len(spec)-2]
			}
			if a != w1 || b != w2 {
				o.Violate("C02", fmt.Sprintf("LastBytes=(%d,%d), last output bytes are (%d,%d)", a, b, w1, w2), "window-lastbytes", line)
			}
		}
	}
	o.Count("win-" + kv["v"])
	o.Emit(id, line, "win id="+id+" v="+kv["v"]+" ops="+kv["ops"], strings.Join(res, "|"), kv["v"]+kv["ops"][:min(len(kv["ops"]), 200)])
}

// genWinOps produces a legal primitive sequence by tracking the window's own
// answers (AvailSize/HistSize) on a live instance.
func genWinOps(r *Rand, variant string, size int, nops int) string {
	var d winDict
	if variant == "brotli" {
		d = &brotli.VerifDict{}
	} else {
		d = &flate.VerifDict{}
	}
	var ops []string
	initOp := func(sz int) {
		d.Init(sz)
		ops = append(ops, fmt.Sprintf("I:%d", sz))
	}
	initOp(size)
	total := 0
	for i := 0; i < nops; i++ {
		if d.AvailSize() == 0 {
			d.ReadFlush()
			ops = append(ops, "F")
			continue
		}
		switch x := r.Intn(20); {
		case x < 4:
			c := r.Intn(256)
			d.PutByte(byte(c))
			total++
			ops = append(ops, fmt.Sprintf("B:%d", c))
		case x < 7:
			b := r.Bytes(r.Intn(3000))
			total += d.WriteBytes(b)
			ops = append(ops, "W:"+hx(b))
		case x < 16 && d.HistSize() > 0:
			dist := 1 + r.Intn(d.HistSize())
			if r.Intn(3) == 0 {
				dist = 1 + r.Intn(min(d.HistSize(), 8))
			}
			if r.Intn(10) == 0 {
				dist = d.HistSize()
			}
			l := 1 + r.Intn(300)
			if r.Intn(8) == 0 {
				l = 1 + r.Intn(70000)
			}
			if variant == "flate" && r.Intn(2) == 0 {
				n := d.(*flate.VerifDict).TryWriteCopy(dist, l)
				total += n
				ops = append(ops, fmt.Sprintf("T:%d:%d", dist, l))
			} else {
				n := d.WriteCopy(dist, l)
				total += n
				ops = append(ops, fmt.Sprintf("C:%d:%d", dist, l))
			}
		case x == 16:
			d.ReadFlush()
			ops = append(ops, "F")
		case x == 17:
			ops = append(ops, "H")
		case x == 18 && variant == "brotli":
			ops = append(ops, "L")
		case x == 19 && r.Intn(10) == 0:
			d.ReadFlush()
			ops = append(ops, "F")
			initOp(r.Pick([]int{1 << 10, 1 << 12, 1 << 13, 1 << 15, 5000, 1 << 16}))
		}
	}
	d.ReadFlush()
	ops = append(ops, "F", "H")
	return strings.Join(ops, "|")
}

func genWin(r *Rand, tier string, emit func(string)) {
	n := 150
	if tier == "thorough" {
		n = 3000
	}
	for i := 0; i < n; i++ {
		v := []string{"flate", "brotli"}[r.Intn(2)]
		size := 1 << 15
		if v == "brotli" {
			size = r.Pick([]int{1<<10 - 16, 1<<12 - 16, 1<<14 - 16, 1<<16 - 16, 1<<18 - 16})
		}
		emit("win v=" + v + " ops=" + genWinOps(r, v, size, 20+r.Intn(400)))
	}
}

func init() {
	register(&Family{
		Name: "win",
		Rule: "dictDecoder (flate and brotli variants) driven one primitive at a time through a verif hook: random legal sequences of WriteByte, raw writes, TryWriteCopy/WriteCopy with distances 1..HistSize (biased to short distances and to exactly HistSize) and lengths up to 70000, ReadFlush, re-Init with another size; sizes cover the 4K->16K->32K growth and the wrap; every returned count, flushed byte string, HistSize/AvailSize/buffer length and LastBytes is compared with the model, and the flushed stream with a byte-at-a-time LZ77 reference. Distinct by op string",
		Gen:  genWin,
		Exec: execWin,
	})
}
