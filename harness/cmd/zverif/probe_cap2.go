package main

import (
	"bytes"
	"fmt"
	"io"
	"sync/atomic"
	"time"

	"github.com/dsnet/compress/brotli"
	cbrotli "github.com/dsnet/compress/internal/cgo/brotli"
)

type cntReader struct {
	r io.Reader
	n int64
	z int64
}

func (c *cntReader) Read(p []byte) (int, error) {
	if len(p) == 0 {
		atomic.AddInt64(&c.z, 1)
	}
	n, err := c.r.Read(p)
	atomic.AddInt64(&c.n, int64(n))
	return n, err
}

// probeCapLib: libbrotlidec on the in-memory stream with a watchdog; reports how far it got.
func probeCapLib(nB1, nA, nB2 int) {
	var bb bytes.Buffer
	capStreamTo(&bb, nB1, nA, nB2)
	in := bb.Bytes()
	src := &cntReader{r: bytes.NewReader(in)}
	cr := cbrotli.NewReader(src)
	var out int64
	done := make(chan error, 1)
	go func() {
		buf := make([]byte, 1<<16)
		for {
			n, err := cr.Read(buf)
			atomic.AddInt64(&out, int64(n))
			if err != nil {
				done <- err
				return
			}
		}
	}()
	select {
	case err := <-done:
		fmt.Printf("  libbrotlidec (in memory, %d bytes): %d bytes out, err=%v, source bytes taken %d\n", len(in), atomic.LoadInt64(&out), err, atomic.LoadInt64(&src.n))
	case <-time.After(8 * time.Second):
		fmt.Printf("  libbrotlidec (in memory, %d bytes): NO RESULT after 8s: %d bytes out so far, source bytes taken %d, zero-length source reads %d\n", len(in), atomic.LoadInt64(&out), atomic.LoadInt64(&src.n), atomic.LoadInt64(&src.z))
	}
}

// probeCapDsnet: brotli.Reader on the in-memory stream with a watchdog.
func probeCapDsnet(nB1, nA, nB2 int) {
	var bb bytes.Buffer
	capStreamTo(&bb, nB1, nA, nB2)
	in := bb.Bytes()
	src := &cntReader{r: bytes.NewReader(in)}
	zr, _ := brotli.NewReader(src, nil)
	var out int64
	done := make(chan error, 1)
	go func() {
		buf := make([]byte, 1<<16)
		for {
			n, err := zr.Read(buf)
			atomic.AddInt64(&out, int64(n))
			if err != nil {
				done <- err
				return
			}
		}
	}()
	select {
	case err := <-done:
		fmt.Printf("  dsnet (in memory, %d bytes, B x %d, A x %d, B x %d, A): %d bytes out, err=%v, source bytes taken %d\n", len(in), nB1, nA-1, nB2, atomic.LoadInt64(&out), err, atomic.LoadInt64(&src.n))
	case <-time.After(20 * time.Second):
		fmt.Printf("  dsnet (in memory, %d bytes, B x %d, A x %d, B x %d, A): NO RESULT after 20s: %d bytes out so far, source bytes taken %d\n", len(in), nB1, nA-1, nB2, atomic.LoadInt64(&out), atomic.LoadInt64(&src.n))
	}
}
