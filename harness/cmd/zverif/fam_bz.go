package main

// Family "bz": bzip2 decoding (C03) — dsnet bzip2.Reader vs the Lean bzip2
// specification (correspondence) and vs libbzip2 restarted per stream (oracle);
// family "bzst": the pipeline stages through verif hooks.

import (
	"bytes"
	stdbzip2 "compress/bzip2"
	"fmt"
	"io"
	"strconv"
	"strings"

	dbzip2 "github.com/dsnet/compress/bzip2"
	cbzip2 "github.com/dsnet/compress/internal/cgo/bzip2"
)

// ---- an independent mini model of the bzip2 inverse pipeline (for synthesis) ----

func bzCRC(data []byte) uint32 {
	crc := uint32(0xffffffff)
	for _, b := range data {
		crc ^= uint32(b) << 24
		for k := 0; k < 8; k++ {
			if crc&0x80000000 != 0 {
				crc = crc<<1 ^ 0x04c11db7
			} else {
				crc <<= 1
			}
		}
	}
	return ^crc
}

// bzInvBWT: the textbook inverse via stable counting sort.
func bzInvBWT(tt []byte, ptr int) []byte {
	n := len(tt)
	if n == 0 || ptr >= n {
		return nil
	}
	var cnt [256]int
	for _, b := range tt {
		cnt[b]++
	}
	sum := 0
	var start [256]int
	for i := range cnt {
		start[i] = sum
		sum += cnt[i]
	}
	next := make([]int, n)
	for i, b := range tt {
		next[start[b]] = i
		start[b]++
	}
	out := make([]byte, n)
	p := next[ptr]
	for i := range out {
		out[i] = tt[p]
		p = next[p]
	}
	return out
}

// bzUnRLE1 expands the first run-length stage; ok=false when a count byte is missing at the end.
func bzUnRLE1(in []byte) (out []byte, ok bool) {
	run, last := 0, -1
	for i := 0; i < len(in); i++ {
		b := in[i]
		if run == 4 {
			for k := 0; k < int(b); k++ {
				out = append(out, byte(last))
			}
			run = 0
			continue
		}
		if int(b) == last && run > 0 {
			run++
		} else {
			last, run = int(b), 1
		}
		out = append(out, b)
	}
	return out, run != 4
}

// bzMTFRLE2 turns post-BWT bytes into symbols (RUNA=0, RUNB=1, MTF index+1).
func bzMTFRLE2(dict []byte, tt []byte) []int {
	d := append([]byte(nil), dict...)
	var syms []int
	run := 0
	flush := func() {
		for n := run + 1; n > 1; n >>= 1 {
			syms = append(syms, n&1)
		}
		run = 0
	}
	for _, v := range tt {
		idx := bytes.IndexByte(d, v)
		copy(d[1:], d[:idx])
		d[0] = v
		if idx == 0 {
			run++
			continue
		}
		if run > 0 {
			flush()
		}
		syms = append(syms, idx+1)
	}
	if run > 0 {
		flush()
	}
	return syms
}

type bzSynth struct {
	stream []byte
	plain  []byte // expected output if the stream is valid
	valid  bool   // built without deliberate damage
}

// synthBzip2 builds a stream of 1-3 blocks bit by bit.
func synthBzip2(r *Rand) bzSynth {
	w := &bitW{msb: true}
	level := 1 + r.Intn(9)
	w.bits(0x425a, 16)
	w.bits('h', 8)
	w.bits(uint64('0'+level), 8)
	res := bzSynth{valid: true}
	var endCRC uint32
	nblk := r.Intn(3)
	if r.Intn(6) != 0 {
		nblk++
	}
	for b := 0; b < nblk; b++ {
		// alphabet and post-BWT content
		nsymAlpha := 1 + r.Intn(6)
		if r.Intn(5) == 0 {
			nsymAlpha = 1 + r.Intn(256)
		}
		if r.Intn(12) == 0 {
			nsymAlpha = 256 // the whole byte alphabet: numSyms = 258, the largest legal value
		}
		used := map[byte]bool{}
		for len(used) < nsymAlpha {
			used[byte(r.U64())] = true
		}
		var dict []byte
		for c := 0; c < 256; c++ {
			if used[byte(c)] {
				dict = append(dict, byte(c))
			}
		}
		n := 1 + r.Intn(120)
		if r.Intn(8) == 0 {
			n = 1 + r.Intn(3000)
		}
		tt := make([]byte, n)
		for i := range tt {
			if i > 0 && r.Intn(3) != 0 {
				tt[i] = tt[i-1] // runs: RUNA/RUNB and RLE1 counts
			} else {
				tt[i] = dict[r.Intn(len(dict))]
			}
		}
		ptr := r.Intn(n)
		if r.Intn(40) == 0 {
			ptr = n + r.Intn(3)
			res.valid = false
		}
		pre := bzInvBWT(tt, ptr)
		data, ok := bzUnRLE1(pre)
		if !ok {
			res.valid = false
		}
		crc := bzCRC(data)
		if r.Intn(40) == 0 {
			crc ^= 1 << uint(r.Intn(32))
			res.valid = false
		}
		w.bits(0x314159265359, 48)
		w.bits(uint64(crc), 32)
		if r.Intn(60) == 0 {
			w.bits(1, 1) // randomised block
			res.valid = false
		} else {
			w.bits(0, 1)
		}
		w.bits(uint64(ptr), 24)
		var hi uint16
		var lo [16]uint16
		for _, c := range dict {
			hi |= 0x8000 >> (c >> 4)
			lo[c>>4] |= 0x8000 >> (c & 15)
		}
		w.bits(uint64(hi), 16)
		for i := 0; i < 16; i++ {
			if hi&(0x8000>>uint(i)) != 0 {
				w.bits(uint64(lo[i]), 16)
			}
		}
		syms := bzMTFRLE2(dict, tt)
		numSyms := len(dict) + 2
		syms = append(syms, numSyms-1)
		numTrees := 2 + r.Intn(5)
		if r.Intn(50) == 0 {
			numTrees = []int{0, 1, 7}[r.Intn(3)]
			res.valid = false
		}
		numSels := (len(syms) + 49) / 50
		switch r.Intn(30) {
		case 0:
			numSels++ // an unused selector is legal
		case 1:
			if numSels > 0 {
				numSels--
				res.valid = false
			}
		}
		w.bits(uint64(numTrees), 3)
		w.bits(uint64(numSels), 15)
		nt := numTrees
		if nt < 1 {
			nt = 1
		}
		sels := make([]int, numSels)
		mtf := []int{0, 1, 2, 3, 4, 5}
		for i := range sels {
			sels[i] = r.Intn(min(nt, 6))
			j := 0
			for mtf[j] != sels[i] {
				j++
			}
			if r.Intn(200) == 0 {
				j = 6
				res.valid = false
			}
			for k := 0; k < j; k++ {
				w.bit(1)
			}
			if j < 6 {
				w.bit(0)
				v := mtf[j]
				copy(mtf[1:], mtf[:j])
				mtf[0] = v
			}
		}
		// code lengths per tree
		halveAll := r.Intn(10) == 0 // every tree of the block under-subscribed by exactly one half
		lens := make([][]int, min(nt, 7))
		codes := make([][]uint32, len(lens))
		for t := range lens {
			l := randCompleteLens(r, numSyms, 5+r.Intn(16))
			for len(l) < numSyms { // alphabet did not fit the limit: pad (over-subscribed)
				l = append(l, 1+r.Intn(20))
				res.valid = false
			}
			if halveAll {
				ok := true
				for _, x := range l {
					ok = ok && x < 20
				}
				if ok {
					for k := range l {
						l[k]++
					}
					res.valid = false
				}
			}
			switch r.Intn(12) {
			case 0: // under-subscribed
				l[r.Intn(len(l))] = min(20, l[r.Intn(len(l))]+1+r.Intn(3))
				res.valid = false
			case 1: // over-subscribed
				k := r.Intn(len(l))
				if l[k] > 1 {
					l[k]--
					res.valid = false
				}
			}
			lens[t] = l
			codes[t] = canonCodes(l)
			cur := l[0]
			if r.Intn(80) == 0 {
				cur = []int{0, 21, 25}[r.Intn(3)]
				res.valid = false
			}
			w.bits(uint64(cur), 5)
			for _, want := range l {
				for cur < want {
					w.bits(2, 2)
					cur++
				}
				for cur > want {
					w.bits(3, 2)
					cur--
				}
				w.bit(0)
			}
		}
		// with an under-subscribed tree, sometimes write the first code word that no symbol owns
		hole := -1
		if r.Intn(3) == 0 {
			hole = r.Intn(len(syms))
		}
		for i, s := range syms {
			g := i / 50
			t := 0
			if g < len(sels) {
				t = sels[g]
			}
			if t >= len(lens) {
				t = 0
			}
			if i == hole {
				maxLen, next := 0, uint32(0)
				for _, l := range lens[t] {
					maxLen = max(maxLen, l)
				}
				for k, l := range lens[t] {
					if l == maxLen && codes[t][k]+1 > next {
						next = codes[t][k] + 1
					}
				}
				if maxLen > 0 && next < 1<<uint(maxLen) {
					w.code(next, uint(maxLen))
					res.valid = false
					continue
				}
			}
			w.code(codes[t][s], uint(lens[t][s]))
		}
		endCRC = (endCRC<<1 | endCRC>>31) ^ crc
		res.plain = append(res.plain, data...)
	}
	w.bits(0x177245385090, 48)
	if r.Intn(40) == 0 {
		endCRC ^= 1
		res.valid = false
	}
	w.bits(uint64(endCRC), 32)
	w.align()
	res.stream = w.buf
	return res
}

func dsnetBunzipAll(b []byte) ([]byte, error) {
	zr, _ := dbzip2.NewReader(bytes.NewReader(b), nil)
	return io.ReadAll(zr)
}

func libBunzipAll(b []byte) ([]byte, error) {
	zr := cbzip2.NewReader(bytes.NewReader(b))
	out, err := io.ReadAll(zr)
	zr.Close()
	return out, err
}

func bzClass(err error) string {
	if err == nil {
		return "eof"
	}
	return errClass(err)
}

func execBz(o *Out, id, line string) {
	kind, kv := parseLine(line)
	switch kind {
	case "bz":
		in := unhx(kv["in"])
		var out []byte
		var err error
		var pnc interface{}
		if !withWatchdogSec(60, func() { _, pnc = catch(func() { out, err = dsnetBunzipAll(in) }) }) {
			o.Violate("C08", "bzip2.Reader did not finish within 60s", "bz-hang", line)
			return
		}
		if pnc != nil {
			o.Violate("C08", fmt.Sprintf("bzip2.Reader panicked: %v", pnc), "bz-panic", line)
			o.Emit(id, line, "", "panic", kv["in"])
			return
		}
		memOracle(o, line, "bzip2", 32<<20, 256, len(in), func() int {
			zr, _ := dbzip2.NewReader(bytes.NewReader(in), nil)
			return drain(zr)
		})
		cls := bzClass(err)
		o.Count("dsnet-" + cls)
		key := ""
		if len(out) > 0 || err == nil {
			key = kv["in"]
		}
		ccls := cls
		if cls != "eof" && cls != "deprecated" {
			ccls = "rej" // the class of a rejected input is compared on cuts of accepted streams only
		}
		o.Emit(id, line, "bz id="+id+" in="+hx(in), outSummary(out)+":"+ccls, key)
		if err == nil && len(in) <= 4000 {
			// cuts of an accepted input: unexpected EOF (or acceptance at the end of one of its streams)
			for q, k := 0, 0; q < 5 && len(in) > 0; q++ {
				k = (k*7 + int(in[q%len(in)]) + q*13) % len(in)
				cout, cerr := dsnetBunzipAll(in[:k])
				c2 := bzClass(cerr)
				o.Emit(fmt.Sprintf("%sc%d", id, q), "", fmt.Sprintf("bz id=%sc%d cls=1 in=%s", id, q, hx(in[:k])), outSummary(cout)+":"+c2, "")
				if c2 != "ueof" && c2 != "eof" {
					o.Violate("C09", fmt.Sprintf("bzip2 input of %d bytes cut at %d ends with class %s", len(in), k, c2), "cut-class", line)
				} else if !bytes.HasPrefix(out, cout) {
					o.Violate("C12", fmt.Sprintf("bzip2 input cut at %d delivers bytes that are not a prefix of the full output", k), "cut-prefix", line)
				}
				// the same cut through the other source shapes: the verdict must be the reference's
				// (success only at the end of one of the concatenated streams), whatever the source offers
				for _, src := range []string{"byte", "readonly", "bufio16"} {
					zr, _ := dbzip2.NewReader(mkSource(src, in[:k], -1, 0, nil, []int{3, 1}), nil)
					sout, serr := io.ReadAll(zr)
					if (serr == nil) != (cerr == nil) || bzClass(serr) != c2 {
						o.Violate("C03", fmt.Sprintf("bzip2 input of %d bytes cut at %d: through a %s source the Reader ends with %v (%d bytes), through bytes.Reader with %v (%d bytes)", len(in), k, src, serr, len(sout), cerr, len(cout)), "cut-verdict-by-source", line)
						break
					}
				}
			}
		}
		if cls != "eof" && cls != "corrupt" && cls != "ueof" && cls != "deprecated" {
			o.Violate("C09", "bzip2.Reader failed with class "+cls, "class-"+cls, line)
		}
		lout, lerr := libBunzipAll(in)
		if cls == "deprecated" {
			o.Count("deprecated")
		} else if (lerr == nil) != (err == nil) {
			o.Violate("C03", fmt.Sprintf("dsnet bzip2.Reader ends with %v, libbzip2 with %v", err, lerr), "verdict-libbz2", line)
		} else if err == nil && !bytes.Equal(out, lout) {
			o.Violate("C03", "both accept, outputs differ from libbzip2's", "output-libbz2", line)
		} else if !commonPrefixOK(out, lout) {
			o.Violate("C03", "bytes delivered before the error differ from libbzip2's", "prefix-libbz2", line)
		}
		if err == nil && len(in) <= 20000 {
			// Read sizes (zero-length buffers in the middle included) and source shapes
			for _, sched := range [][]int{{1}, {0, 0, 1, 0, 7}, {3, 100000}, {100, 0, 100}, {5, 0}} {
				zr, _ := dbzip2.NewReader(bytes.NewReader(in), nil)
				var got []byte
				var e error
				_, p := catch(func() {
					for i := 0; e == nil && i < 1<<22; i++ {
						buf := make([]byte, sched[min(i, len(sched)-1)])
						if i >= len(sched) && len(buf) == 0 {
							buf = make([]byte, 64)
						}
						var k int
						k, e = zr.Read(buf)
						got = append(got, buf[:k]...)
					}
				})
				if p != nil || e != io.EOF || !bytes.Equal(got, out) {
					o.Violate("C10", fmt.Sprintf("bzip2 Read sizes %v change the result: panic=%v err=%v, %d bytes vs %d", sched, p, e, len(got), len(out)), "read-size-dependent", line)
					break
				}
				if zr.OutputOffset != int64(len(got)) || zr.InputOffset != int64(len(in)) {
					o.Violate("C11", fmt.Sprintf("bzip2 counters after %d in / %d out: InputOffset=%d OutputOffset=%d", len(in), len(got), zr.InputOffset, zr.OutputOffset), "bz-counters", line)
					break
				}
			}
			for _, src := range append([]string{"byte", "byteeof"}, realKinds...) {
				zr, _ := dbzip2.NewReader(mkSource(src, in, -1, 0, nil, []int{3, 1, 8}), nil)
				got, e := io.ReadAll(zr)
				if e != nil || !bytes.Equal(got, out) {
					o.Violate("C10", fmt.Sprintf("bzip2 through source %s: err=%v equal=%v", src, e, bytes.Equal(got, out)), "source-shape", line)
					break
				}
				if zr.InputOffset != int64(len(in)) || zr.OutputOffset != int64(len(got)) {
					o.Violate("C11", fmt.Sprintf("bzip2 through source %s: %d bytes in, %d out, but InputOffset=%d OutputOffset=%d", src, len(in), len(got), zr.InputOffset, zr.OutputOffset), "bz-counters-source", line)
					break
				}
			}
		}
		if want, ok := kv["plain"]; ok {
			if err != nil || !bytes.Equal(out, unhx(want)) {
				o.Violate("C03", fmt.Sprintf("valid synthesised stream: err=%v, output equal=%v", err, bytes.Equal(out, unhx(want))), "synth-plain", line)
			}
		}
	case "rle1e":
		in := unhx(kv["in"])
		c, _ := strconv.Atoi(kv["cap"])
		out, n := dbzip2.VerifRLE1Encode(c, in)
		o.Emit(id, line, fmt.Sprintf("rle1e id=%s cap=%d in=%s", id, c, hx(in)), fmt.Sprintf("%s:%d", hx(out), n), "e"+kv["in"])
		if back, ok := bzUnRLE1(out); !ok || !bytes.Equal(back, in[:n]) {
			o.Violate("C04", "RLE1 encoding does not expand back to the consumed input", "rle1-roundtrip", line)
		}
	case "rle1d":
		in := unhx(kv["in"])
		sched := parseInts(kv["sched"])
		outs, st := dbzip2.VerifRLE1Decode(in, sched)
		var rs []string
		var all []byte
		for i := range outs {
			rs = append(rs, hx(outs[i])+":"+st[i])
			all = append(all, outs[i]...)
		}
		o.Emit(id, line, fmt.Sprintf("rle1d id=%s in=%s sched=%s", id, hx(in), kv["sched"]), strings.Join(rs, "|"), "d"+kv["in"]+kv["sched"])
		want, _ := bzUnRLE1(in)
		if !bytes.HasPrefix(want, all) {
			o.Violate("C10", "resumable RLE1 reads are not a prefix of the one-shot expansion", "rle1-resume", line)
		}
	case "mtfe":
		dict, in := unhx(kv["dict"]), unhx(kv["in"])
		syms := dbzip2.VerifMTFEncode(dict, in)
		var ss []string
		for _, s := range syms {
			ss = append(ss, strconv.Itoa(int(s)))
		}
		o.Emit(id, line, fmt.Sprintf("mtfe id=%s dict=%s in=%s", id, hx(dict), hx(in)), joinOr(ss, ","), "m"+kv["in"])
		back, ok := dbzip2.VerifMTFDecode(dict, syms, len(in))
		if !ok || !bytes.Equal(back, in) {
			o.Violate("C04", "MTF/RLE2 decode(encode(x)) != x", "mtf-roundtrip", line)
		}
		o.Emit(id+"d", "", fmt.Sprintf("mtfd id=%sd dict=%s syms=%s blk=%d", id, hx(dict), joinOr(ss, ","), len(in)), hx(back), "")
	case "mtfd":
		dict := unhx(kv["dict"])
		var syms []uint16
		for _, v := range parseInts(kv["syms"]) {
			syms = append(syms, uint16(v))
		}
		blk, _ := strconv.Atoi(kv["blk"])
		back, ok := dbzip2.VerifMTFDecode(dict, syms, blk)
		res := hx(back)
		if !ok {
			res = "corrupt"
		}
		o.Emit(id, line, fmt.Sprintf("mtfd id=%s dict=%s syms=%s blk=%d", id, hx(dict), kv["syms"], blk), res, "md"+kv["syms"])
	case "bwt":
		in := unhx(kv["in"])
		enc, ptr := dbzip2.VerifBWTEncode(in)
		o.Emit(id+"e", line, fmt.Sprintf("bwte id=%se in=%s", id, hx(in)), fmt.Sprintf("%s:%d", hx(enc), ptr), "b"+kv["in"])
		if len(in) > 0 {
			dec := dbzip2.VerifBWTDecode(enc, ptr)
			if !bytes.Equal(dec, in) {
				o.Violate("C04", "inverse BWT of the forward BWT differs from the input", "bwt-roundtrip", line)
			}
			o.Emit(id+"d", "", fmt.Sprintf("bwtd id=%sd in=%s ptr=%d", id, hx(enc), ptr), hx(dec), "")
		}
	case "bwtd":
		in := unhx(kv["in"])
		ptr, _ := strconv.Atoi(kv["ptr"])
		dec := dbzip2.VerifBWTDecode(in, ptr)
		o.Emit(id, line, fmt.Sprintf("bwtd id=%s in=%s ptr=%d", id, hx(in), ptr), hx(dec), "bd"+kv["in"]+kv["ptr"])
		if !bytes.Equal(dec, bzInvBWT(in, ptr)) {
			o.Violate("C03", "bwt.Decode differs from the textbook inverse", "bwt-decode", line)
		}
	case "bzcrc":
		in := unhx(kv["in"])
		k := len(in) / 3
		got := dbzip2.VerifCRC(in[:k], in[k:])
		o.Emit(id, line, "bzcrc id="+id+" in="+hx(in), strconv.FormatUint(uint64(got), 10), "c"+kv["in"])
		if got != bzCRC(in) {
			o.Violate("C03", "crc.update differs from the MSB-first CRC-32", "crc", line)
		}
	}
}

func withWatchdogSec(sec int, f func()) bool {
	return withWatchdog(timeSec(sec), f)
}

func genBz(r *Rand, tier string, emit func(string)) {
	thorough := tier == "thorough"
	e := func(b []byte) { emit("bz in=" + hx(b)) }
	e(nil)
	for a := 0; a < 256; a++ {
		e([]byte{byte(a)})
	}
	var valid [][]byte
	// real encoders: libbzip2 and this package's Writer, levels 1..9
	n := 60
	if thorough {
		n = 1200
	}
	for i := 0; i < n; i++ {
		d := r.Bytes(r.Intn(3000))
		if r.Intn(12) == 0 {
			d = r.Bytes(100000 + r.Intn(150000))
		}
		var bb bytes.Buffer
		lvl := 1 + r.Intn(9)
		if r.Intn(2) == 0 {
			zw := cbzip2.NewWriter(&bb, lvl)
			zw.Write(d)
			zw.Close()
		} else {
			zw, _ := dbzip2.NewWriter(&bb, &dbzip2.WriterConfig{Level: lvl})
			zw.Write(d)
			zw.Close()
		}
		valid = append(valid, bb.Bytes())
		if len(d) < 4000 {
			emit("bz in=" + hx(bb.Bytes()) + " plain=" + hx(d))
		} else {
			e(bb.Bytes())
		}
	}
	// synthesised streams
	ns := 1500
	if thorough {
		ns = 40000
	}
	for i := 0; i < ns; i++ {
		s := synthBzip2(r)
		if s.valid && len(s.plain) < 6000 {
			emit("bz in=" + hx(s.stream) + " plain=" + hx(s.plain))
		} else {
			e(s.stream)
		}
		if r.Intn(4) == 0 {
			valid = append(valid, s.stream)
		}
	}
	// concatenations, with and without junk in between
	for i := 0; i < n; i++ {
		a, b := valid[r.Intn(len(valid))], valid[r.Intn(len(valid))]
		if len(a)+len(b) > 20000 {
			continue
		}
		c := append(append([]byte{}, a...), b...)
		e(c)
		if r.Intn(3) == 0 {
			e(append(append(append([]byte{}, a...), r.Bytes(1+r.Intn(3))...), b...))
		}
	}
	// every value of the header's block-size byte on a valid stream, first and second stream
	{
		base, _ := bzWrite(1, []byte("Hello, world!"), nil)
		for v := 0; v < 256; v++ {
			b := append([]byte(nil), base...)
			b[3] = byte(v)
			emit("bz in=" + hx(b))
			if v%5 == 0 {
				emit("bz in=" + hx(append(append([]byte(nil), base...), b...)))
			}
		}
	}
	// mutations and truncations
	nm := 1500
	if thorough {
		nm = 40000
	}
	for i := 0; i < nm; i++ {
		b := append([]byte(nil), valid[r.Intn(len(valid))]...)
		if len(b) > 3000 {
			b = b[:3000]
		}
		switch r.Intn(4) {
		case 0:
			b[r.Intn(len(b))] ^= 1 << uint(r.Intn(8))
		case 1:
			b = b[:r.Intn(len(b)+1)]
		case 2:
			k := r.Intn(min(len(b), 40))
			b[k] ^= 1 << uint(r.Intn(8))
		default:
			b = append(b, r.Bytes(r.Intn(5))...)
		}
		e(b)
	}
	e([]byte("BZ0"))
	e([]byte("BZ01"))
	e([]byte("BZh0"))
	e([]byte("BZh:"))
}

func genBzst(r *Rand, tier string, emit func(string)) {
	n := 400
	if tier == "thorough" {
		n = 10000
	}
	for i := 0; i < n; i++ {
		// RLE1: runs of 1..300 at every offset relative to a small block capacity
		var d []byte
		for len(d) < 10+r.Intn(200) {
			c := byte('a' + r.Intn(3))
			run := 1 + r.Intn(8)
			if r.Intn(6) == 0 {
				run = 250 + r.Intn(20)
			}
			for ; run > 0; run-- {
				d = append(d, c)
			}
		}
		capa := 1 + r.Intn(len(d)+20)
		emit(fmt.Sprintf("rle1e cap=%d in=%s", capa, hx(d)))
		// RLE1 decode of arbitrary bytes (incl. count 0 followed by the same byte, count 255) with random read sizes
		raw := make([]byte, r.Intn(40))
		for j := range raw {
			if j > 0 && r.Intn(3) != 0 {
				raw[j] = raw[j-1]
			} else {
				raw[j] = byte(r.Intn(4)) * 85
			}
			if r.Intn(10) == 0 {
				raw[j] = []byte{0, 1, 255, 4}[r.Intn(4)]
			}
		}
		var sched []string
		for k := 0; k < 40; k++ {
			sched = append(sched, strconv.Itoa(r.Pick([]int{0, 1, 1, 2, 3, 7, 300, 5000})))
		}
		emit(fmt.Sprintf("rle1d in=%s sched=%s", hx(raw), strings.Join(sched, ",")))
		// MTF / RLE2
		nd := 1 + r.Intn(8)
		if r.Intn(6) == 0 {
			nd = 1 + r.Intn(256)
		}
		used := map[byte]bool{}
		for len(used) < nd {
			used[byte(r.U64())] = true
		}
		var dict []byte
		for c := 0; c < 256; c++ {
			if used[byte(c)] {
				dict = append(dict, byte(c))
			}
		}
		vals := make([]byte, r.Intn(300))
		for j := range vals {
			if j > 0 && r.Intn(3) != 0 {
				vals[j] = vals[j-1]
			} else {
				vals[j] = dict[r.Intn(len(dict))]
			}
		}
		emit(fmt.Sprintf("mtfe dict=%s in=%s", hx(dict), hx(vals)))
		// arbitrary symbol strings incl. long RUNA/RUNB runs and a tight block size
		var ss []string
		for k := r.Intn(40); k > 0; k-- {
			if r.Intn(2) == 0 {
				ss = append(ss, strconv.Itoa(r.Intn(2)))
			} else {
				if len(dict) >= 2 {
					ss = append(ss, strconv.Itoa(2+r.Intn(len(dict)-1)))
				}
			}
		}
		if r.Intn(20) == 0 {
			for k := 0; k < 30; k++ {
				ss = append(ss, "1")
			}
		}
		if r.Intn(8) == 0 {
			// a run written with 25..40 RUNA/RUNB symbols whose high symbols are RUNA: the
			// 32-bit run counter wraps to a small, in-range length (libbzip2 rejects > 24)
			ss = nil
			for k := 1 + r.Intn(4); k > 0; k-- {
				ss = append(ss, strconv.Itoa(r.Intn(2)))
			}
			nrun := 21 + r.Intn(16)
			switch r.Intn(3) { // also past 64 and 128 run symbols: a wider counter wraps there
			case 1:
				nrun = 58 + r.Intn(14)
			case 2:
				nrun = 120 + r.Intn(20)
			}
			for k := nrun; k > 0; k-- {
				ss = append(ss, "0")
			}
			if len(dict) >= 2 && r.Bool() {
				ss = append(ss, strconv.Itoa(2+r.Intn(len(dict)-1)))
			}
		}
		emit(fmt.Sprintf("mtfd dict=%s syms=%s blk=%d", hx(dict), joinOr(ss, ","), r.Pick([]int{5, 50, 100000, 900000})))
		// BWT
		b := r.Bytes(r.Intn(120))
		emit("bwt in=" + hx(b))
		if len(b) > 0 {
			emit(fmt.Sprintf("bwtd in=%s ptr=%d", hx(b), r.Intn(len(b))))
		}
		emit("bzcrc in=" + hx(r.Bytes(r.Intn(700))))
	}
	emit("bwt in=-")
	emit("rle1e cap=10 in=-")
}

// compress/bzip2 is used only on streams produced by real encoders.
var _ = stdbzip2.NewReader

func init() {
	register(&Family{
		Name: "bz",
		Rule: "bzip2 inputs: every string of <= 1 byte, output of libbzip2 and of this package's Writer at levels 1-9 (incl. multi-block inputs), bit-level synthesised streams built on an independent model of the inverse pipeline (1-3 blocks, 1-256 symbol alphabets, run-heavy content so that RUNA/RUNB and all RLE1 counts incl. 0 and 255 occur, 2-6 tables with complete/under-/over-subscribed lengths up to 20 bits, arbitrary selectors, out-of-range origin pointers, wrong block/stream CRCs, randomised blocks, illegal table counts/selectors/start lengths), concatenations with and without junk, bit flips, truncations and extensions. Each input goes through dsnet bzip2.Reader, the Lean specification and libbzip2 restarted per stream. Non-trivial = produced output or accepted",
		Gen:  genBz,
		Exec: execBz,
	})
	register(&Family{
		Name: "bzst",
		Rule: "bzip2 pipeline stages through verif hooks: RLE1 encode with runs of 1..270 against small block capacities, resumable RLE1 decode of arbitrary bytes under random read-size schedules, MTF/RLE2 encode+decode over 1-256 symbol dictionaries, MTF/RLE2 decode of arbitrary symbol strings with tight block sizes and >24-symbol runs, forward BWT (SA-IS) vs the rotation-sort specification, inverse BWT vs the textbook inverse, crc.update across chunk splits vs the bitwise MSB-first CRC-32",
		Gen:  genBzst,
		Exec: execBz,
	})
}
