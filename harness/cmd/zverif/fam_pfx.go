package main

// Family "pfx": internal/prefix driven directly (C20): GeneratePrefixes,
// GenerateLengths, Decoder/Encoder tables as functions, RangeEncoder.

import (
	"bytes"
	"fmt"
	"io"
	"sort"
	"strconv"
	"strings"

	cerrors "github.com/dsnet/compress/internal/errors"
	"github.com/dsnet/compress/internal/prefix"
)

// byteOnly exposes Read and ReadByte only.
type byteOnly struct{ r *bytes.Reader }

func (b *byteOnly) Read(p []byte) (int, error) { return b.r.Read(p) }
func (b *byteOnly) ReadByte() (byte, error)    { return b.r.ReadByte() }

// catch runs f and converts panics: errors raised through errors.Panic come
// back as an error, anything else as a "panic" marker.
func catch(f func()) (err error, panicked interface{}) {
	defer func() {
		if p := recover(); p != nil {
			panicked = p
		}
	}()
	func() {
		defer cerrors.Recover(&err)
		f()
	}()
	return
}

func parseCodesGo(s string) prefix.PrefixCodes {
	var cs prefix.PrefixCodes
	if s == "-" || s == "" {
		return cs
	}
	for _, t := range strings.Split(s, ",") {
		f := strings.Split(t, ":")
		var c prefix.PrefixCode
		v, _ := strconv.Atoi(f[0])
		c.Sym = uint32(v)
		if len(f) > 1 {
			v, _ = strconv.Atoi(f[1])
			c.Len = uint32(v)
		}
		if len(f) > 2 {
			v, _ = strconv.Atoi(f[2])
			c.Val = uint32(v)
		}
		cs = append(cs, c)
	}
	return cs
}

func fmtCodes(cs prefix.PrefixCodes, withVal bool) string {
	var ss []string
	for _, c := range cs {
		if withVal {
			ss = append(ss, fmt.Sprintf("%d:%d:%d", c.Sym, c.Len, c.Val))
		} else {
			ss = append(ss, fmt.Sprintf("%d:%d", c.Sym, c.Len))
		}
	}
	return joinOr(ss, ",")
}

func reverseN(v uint32, n uint32) uint32 {
	var x uint32
	for i := uint32(0); i < n; i++ {
		x = x<<1 | (v>>i)&1
	}
	return x
}

// checkCode evaluates the C20 clauses on an assigned code.
func checkCode(cs prefix.PrefixCodes) string {
	if len(cs) < 2 {
		return ""
	}
	// Kraft
	var kraft uint64
	var maxLen uint32
	for _, c := range cs {
		if c.Len > maxLen {
			maxLen = c.Len
		}
	}
	for _, c := range cs {
		if c.Len == 0 {
			return "zero-length code"
		}
		kraft += 1 << (maxLen - c.Len)
	}
	if kraft != 1<<maxLen {
		return "code is not complete (Kraft sum != 1)"
	}
	// prefix-free (on MSB-first words) and canonical
	type w struct{ word, l, sym uint32 }
	var ws []w
	for _, c := range cs {
		ws = append(ws, w{reverseN(c.Val, c.Len), c.Len, c.Sym})
	}
	for i := range ws {
		for j := range ws {
			if i != j && ws[i].l <= ws[j].l && ws[j].word>>(ws[j].l-ws[i].l) == ws[i].word {
				return "code is not prefix-free"
			}
		}
	}
	sort.Slice(ws, func(i, j int) bool {
		if ws[i].l != ws[j].l {
			return ws[i].l < ws[j].l
		}
		return ws[i].sym < ws[j].sym
	})
	var next uint32
	var pl uint32
	for i, x := range ws {
		if i > 0 {
			next = (next + 1) << (x.l - pl)
		}
		if x.word != next {
			return "code is not canonical"
		}
		pl = x.l
	}
	return ""
}

func bitsToBytesLSB(bits string) []byte {
	out := make([]byte, (len(bits)+7)/8)
	for i, c := range bits {
		if c == '1' {
			out[i/8] |= 1 << uint(i%8)
		}
	}
	return out
}

func decodeAllGo(cs prefix.PrefixCodes, in []byte, byteMode bool) string {
	return decodeAllGoReuse(nil, cs, in, byteMode, 0)
}

// reusePre: codes a Decoder held before it is initialised again (a short one and one with
// linked second-level tables).
var reusePre = func() []prefix.PrefixCodes {
	mk := func(lens []int) prefix.PrefixCodes {
		var cs prefix.PrefixCodes
		for s, l := range lens {
			cs = append(cs, prefix.PrefixCode{Sym: uint32(s), Len: uint32(l)})
		}
		prefix.GeneratePrefixes(cs)
		return cs
	}
	return []prefix.PrefixCodes{mk([]int{2, 2, 2, 3, 3}), mk([]int{1, 2, 3, 4, 5, 6, 7, 8, 9, 10, 11, 12, 13, 14, 15, 15})}
}()

// decodeAllGoReuse decodes with a Decoder that held the code `pre` before.
// `lead` bits are read first, so that the bit buffer is not empty at the first symbol.
func decodeAllGoReuse(pre, cs prefix.PrefixCodes, in []byte, byteMode bool, lead uint) string {
	var pd prefix.Decoder
	var res []string
	if pre != nil {
		if _, p := catch(func() { pd.Init(pre) }); p != nil {
			return "pre-init-panic"
		}
	}
	_, p := catch(func() { pd.Init(cs) })
	if p != nil {
		return "init-panic"
	}
	var pr prefix.Reader
	var src io.Reader = bytes.NewReader(in)
	if byteMode {
		src = &byteOnly{bytes.NewReader(in)}
	}
	pr.Init(src, false)
	total := int64(8 * len(in))
	if lead > 0 {
		if err, p := catch(func() { pr.ReadBits(lead) }); err != nil || p != nil {
			return "lead-failed"
		}
	}
	for len(res) < 100000 {
		if pr.BitsRead() >= total {
			res = append(res, "end")
			break
		}
		before := pr.BitsRead()
		var sym uint
		err, p := catch(func() { sym = pr.ReadSymbol(&pd) })
		if p != nil {
			res = append(res, "panic")
			break
		}
		if err != nil {
			res = append(res, errClass(err))
			break
		}
		res = append(res, fmt.Sprintf("%d:%d", sym, pr.BitsRead()-before))
		if pr.BitsRead() == before {
			res = append(res, "no-progress")
			break
		}
	}
	return strings.Join(res, ",")
}

func execPfx(o *Out, id, line string) {
	kind, kv := parseLine(line)
	switch kind {
	case "gp":
		cs := parseCodesGo(kv["codes"])
		var err error
		_, p := catch(func() { err = prefix.GeneratePrefixes(cs) })
		res := ""
		switch {
		case p != nil:
			res = "err:panic"
		case err != nil:
			res = "err:" + errClass(err)
		default:
			res = "ok:" + fmtCodes(cs, true)
			if why := checkCode(cs); why != "" {
				o.Violate("C20", "GeneratePrefixes accepted the lengths but the "+why, "gp-"+strings.Fields(why)[len(strings.Fields(why))-1], line)
			}
		}
		o.Count("gp-" + strings.SplitN(res, ":", 2)[0])
		key := ""
		if len(cs) >= 2 {
			key = kv["codes"]
		}
		o.Emit(id, line, fmt.Sprintf("gp id=%s codes=%s", id, kv["codes"]), res, key)
		if err == nil && p == nil && len(cs) >= 1 {
			// decode/encode tables as functions on a sample of inputs
			in := unhx(kv["in"])
			if len(in) > 0 {
				// a Decoder that held another code before behaves like a fresh one (also for the
				// zero-bit code of a one-symbol alphabet)
				fresh := decodeAllGoReuse(nil, cs, in, false, 3)
				for _, pre := range reusePre {
					if got := decodeAllGoReuse(pre, cs, in, false, 3); got != fresh {
						o.Violate("C20", "a re-initialised Decoder decodes "+trunc(got, 100)+", a fresh one "+trunc(fresh, 100), "decoder-reuse", line)
						break
					}
				}
			}
			if len(in) > 0 && len(cs) >= 2 {
				var bits strings.Builder
				for _, b := range in {
					for k := 0; k < 8; k++ {
						bits.WriteByte('0' + (b>>uint(k))&1)
					}
				}
				a := decodeAllGo(cs, in, false)
				b := decodeAllGo(cs, in, true)
				o.Emit(id+"d", "", fmt.Sprintf("dec id=%sd codes=%s in=%s", id, fmtCodes(cs, true), bits.String()), a, "")
				if a != b {
					o.Violate("C10", "symbols decoded through a ReadByte source differ from those through a Peek source: "+trunc(a, 100)+" vs "+trunc(b, 100), "dec-mode-mismatch", line)
				}
			}
			var pe prefix.Encoder
			_, p := catch(func() { pe.Init(cs) })
			if p != nil {
				o.Violate("C20", fmt.Sprintf("Encoder.Init panicked: %v", p), "enc-init-panic", line)
			} else {
				// write every symbol, read it back
				var bb bytes.Buffer
				var pw prefix.Writer
				pw.Init(&bb, false)
				var syms []string
				for _, c := range cs {
					pw.WriteSymbol(uint(c.Sym), &pe)
					syms = append(syms, strconv.Itoa(int(c.Sym)))
				}
				pw.WritePads(0)
				pw.Flush()
				got := decodeAllGo(cs, bb.Bytes(), false)
				var want []string
				for _, c := range cs {
					want = append(want, fmt.Sprintf("%d:%d", c.Sym, c.Len))
				}
				if len(cs) > 1 && !strings.HasPrefix(got, strings.Join(want, ",")) {
					o.Violate("C20", "writing every symbol and reading back: got "+trunc(got, 120), "enc-dec-roundtrip", line)
				}
				var vs []string
				for _, c := range cs {
					vs = append(vs, fmt.Sprintf("%d:%d", c.Val, c.Len))
				}
				// the model's encoder table must give the assigned codes
				o.Emit(id+"e", "", fmt.Sprintf("enc id=%se codes=%s syms=%s", id, fmtCodes(cs, true), strings.Join(syms, ",")), strings.Join(vs, ","), "")
			}
		}
	case "gl":
		var cs prefix.PrefixCodes
		for i, t := range strings.Split(kv["counts"], ",") {
			v, _ := strconv.Atoi(t)
			cs = append(cs, prefix.PrefixCode{Sym: uint32(i), Cnt: uint32(v)})
		}
		if kv["counts"] == "-" {
			cs = nil
		}
		maxBits, _ := strconv.Atoi(kv["max"])
		var err error
		_, p := catch(func() { err = prefix.GenerateLengths(cs, uint(maxBits)) })
		res := "none"
		if p == nil && err == nil {
			var ls []string
			for _, c := range cs {
				ls = append(ls, strconv.Itoa(int(c.Len)))
			}
			res = "ok:" + joinOr(ls, ",")
		}
		n := len(cs)
		fits := n <= 1 || (maxBits < 63 && n <= 1<<uint(maxBits))
		o.Count("gl-" + strings.SplitN(res, ":", 2)[0])
		if p != nil {
			o.Count("gl-panic")
			if fits {
				o.Violate("C20", fmt.Sprintf("GenerateLengths panicked on an alphabet of %d with limit %d: %v", n, maxBits, p), "gl-panic", line)
			}
		}
		if p == nil && err == nil && n >= 2 && fits {
			// complete, within the limit, monotone
			var kraft uint64
			bad := ""
			for _, c := range cs {
				if c.Len == 0 || int(c.Len) > maxBits {
					bad = fmt.Sprintf("length %d outside 1..%d", c.Len, maxBits)
					break
				}
				kraft += 1 << (uint(maxBits) - uint(c.Len))
			}
			if bad == "" && kraft != 1<<uint(maxBits) {
				bad = "code lengths are not complete (Kraft sum != 1)"
			}
			if bad == "" {
				for i := 1; i < len(cs); i++ {
					if cs[i-1].Cnt < cs[i].Cnt && cs[i].Len > cs[i-1].Len {
						bad = fmt.Sprintf("symbol with count %d got a longer code (%d) than one with count %d (%d)", cs[i].Cnt, cs[i].Len, cs[i-1].Cnt, cs[i-1].Len)
						break
					}
				}
			}
			if bad != "" {
				o.Violate("C20", "GenerateLengths: "+bad, "gl-clause", line)
			}
		}
		key := ""
		if n >= 2 {
			key = kv["counts"] + "/" + kv["max"]
		}
		o.Emit(id, line, fmt.Sprintf("gl id=%s counts=%s max=%d", id, kv["counts"], maxBits), res, key)
	case "rng":
		base, _ := strconv.Atoi(kv["base"])
		var bits []uint
		for _, t := range strings.Split(kv["bits"], ",") {
			v, _ := strconv.Atoi(t)
			bits = append(bits, uint(v))
		}
		rcs := prefix.MakeRangeCodes(uint(base), bits)
		var re prefix.RangeEncoder
		re.Init(rcs)
		var res []string
		for _, t := range strings.Split(kv["ofs"], ",") {
			v, _ := strconv.Atoi(t)
			s := re.Encode(uint(v))
			res = append(res, strconv.Itoa(int(s)))
			if int(s) >= len(rcs) || uint32(v) < rcs[s].Base || uint32(v) >= rcs[s].End() {
				o.Violate("C20", fmt.Sprintf("RangeEncoder.Encode(%d)=%d outside that range", v, s), "rng-encode", line)
			}
		}
		o.Emit(id, line, fmt.Sprintf("rng id=%s base=%d bits=%s ofs=%s", id, base, kv["bits"], kv["ofs"]), strings.Join(res, ","), kv["bits"]+"/"+kv["ofs"])
	}
}

func trunc(s string, n int) string {
	if len(s) > n {
		return s[:n] + "..."
	}
	return s
}

// randCompleteLens builds a complete length vector for n symbols (n>=2) by
// splitting leaves; all lengths <= limit.
func randCompleteLens(r *Rand, n, limit int) []int {
	lens := []int{1, 1}
	for len(lens) < n {
		// pick a leaf that can still be split
		var cand []int
		for i, l := range lens {
			if l < limit {
				cand = append(cand, i)
			}
		}
		if len(cand) == 0 {
			break
		}
		i := cand[r.Intn(len(cand))]
		lens[i]++
		lens = append(lens, lens[i])
	}
	// shuffle
	for i := len(lens) - 1; i > 0; i-- {
		j := r.Intn(i + 1)
		lens[i], lens[j] = lens[j], lens[i]
	}
	return lens
}

func genPfx(r *Rand, tier string, emit func(string)) {
	thorough := tier == "thorough"
	// --- GenerateLengths: all count vectors over alphabets <= 6 (quick: <= 5) with counts 0..4
	maxN := 5
	if thorough {
		maxN = 6
	}
	for n := 0; n <= maxN; n++ {
		var rec func(prefix []int)
		rec = func(pre []int) {
			if len(pre) == n {
				var ss []string
				for _, v := range pre {
					ss = append(ss, strconv.Itoa(v))
				}
				lim := 0
				for 1<<uint(lim) < n {
					lim++
				}
				if lim == 0 {
					lim = 1
				}
				for _, m := range []int{lim, lim + 1, 15} {
					emit(fmt.Sprintf("gl counts=%s max=%d", joinOr(ss, ","), m))
				}
				return
			}
			lo := 0
			if len(pre) > 0 {
				lo = pre[len(pre)-1]
			}
			for v := lo; v <= 4; v++ {
				rec(append(pre, v))
			}
		}
		rec(nil)
	}
	// Fibonacci-like, powers of two, all equal, all zero, random; limits ceil(log2 n)..27
	nProf := 300
	if thorough {
		nProf = 5000
	}
	for i := 0; i < nProf; i++ {
		n := 2 + r.Intn(60)
		if r.Intn(6) == 0 {
			n = 2 + r.Intn(703)
		}
		cs := make([]int, n)
		switch r.Intn(6) {
		case 0: // fibonacci
			a, b := 1, 1
			for j := range cs {
				cs[j] = a
				a, b = b, a+b
				if b > 1<<30 {
					a, b = 1<<30, 1<<30
				}
			}
		case 1: // powers of two
			for j := range cs {
				sh := j
				if sh > 30 {
					sh = 30
				}
				cs[j] = 1 << uint(sh)
			}
		case 2:
			v := r.Intn(5)
			for j := range cs {
				cs[j] = v
			}
		case 3:
			for j := range cs {
				cs[j] = r.Intn(10)
			}
		case 4: // geometric with ratio 3
			v := 1
			for j := range cs {
				cs[j] = v
				if v < 1<<28 {
					v *= 3
				}
			}
		default:
			for j := range cs {
				cs[j] = r.Intn(1 << uint(r.Intn(20)))
			}
		}
		sort.Ints(cs)
		lim := 1
		for 1<<uint(lim) < n {
			lim++
		}
		var ss []string
		for _, v := range cs {
			ss = append(ss, strconv.Itoa(v))
		}
		m := lim + r.Intn(28-lim)
		if r.Intn(3) == 0 {
			m = lim
		}
		emit(fmt.Sprintf("gl counts=%s max=%d", strings.Join(ss, ","), m))
	}
	// unsorted counts are refused
	emit("gl counts=3,1,2 max=5")
	// --- GeneratePrefixes: complete, incomplete, over-subscribed, unsorted
	nGp := 1200
	if thorough {
		nGp = 20000
	}
	for i := 0; i < nGp; i++ {
		n := 2 + r.Intn(40)
		limit := 3 + r.Intn(13)
		if r.Intn(5) == 0 {
			limit = 9 + r.Intn(7) // exercise the link tables
			n = 20 + r.Intn(260)
		}
		lens := randCompleteLens(r, n, limit)
		switch r.Intn(8) {
		case 0: // make it incomplete
			lens[r.Intn(len(lens))]++
		case 1: // over-subscribed
			k := r.Intn(len(lens))
			if lens[k] > 1 {
				lens[k]--
			}
		case 2:
			lens[r.Intn(len(lens))] = 0
		}
		var ss []string
		sym := 0
		for _, l := range lens {
			sym += 1 + r.Intn(3)
			ss = append(ss, fmt.Sprintf("%d:%d", sym, l))
		}
		if r.Intn(40) == 0 && len(ss) > 2 { // symbols out of order
			ss[0], ss[1] = ss[1], ss[0]
		}
		emit(fmt.Sprintf("gp codes=%s in=%s", strings.Join(ss, ","), hx(r.Bytes(8+r.Intn(40)))))
	}
	emit("gp codes=- in=00")
	emit("gp codes=5:0 in=00")
	for _, sym := range []int{0, 5, 255, 285} { // a one-symbol alphabet (zero-bit code) over non-zero input bits
		emit(fmt.Sprintf("gp codes=%d:0 in=%s", sym, hx(append([]byte{0xff, 0x31}, r.Bytes(6)...))))
	}
	emit("gp codes=5:1 in=00")
	// exhaustive: every length vector over <= 4 symbols with lengths 1..3
	for n := 2; n <= 4; n++ {
		tot := 1
		for k := 0; k < n; k++ {
			tot *= 3
		}
		for v := 0; v < tot; v++ {
			var ss []string
			x := v
			for k := 0; k < n; k++ {
				ss = append(ss, fmt.Sprintf("%d:%d", k, 1+x%3))
				x /= 3
			}
			emit(fmt.Sprintf("gp codes=%s in=%s", strings.Join(ss, ","), "1b2dd48e"))
		}
	}
	// --- RangeCodes
	for i := 0; i < 100; i++ {
		n := 1 + r.Intn(30)
		var bs, os []string
		base := r.Intn(5)
		end := base
		for j := 0; j < n; j++ {
			b := r.Intn(11)
			bs = append(bs, strconv.Itoa(b))
			end += 1 << uint(b)
		}
		for j := 0; j < 30; j++ {
			os = append(os, strconv.Itoa(base+r.Intn(end-base)))
		}
		os = append(os, strconv.Itoa(base), strconv.Itoa(end-1))
		for v := base + 1015; v <= base+1035 && v < end; v++ { // the end of the encoder's lookup table
			os = append(os, strconv.Itoa(v))
		}
		for j, acc := 0, base; j < n; j++ { // the first and last value of every range
			b, _ := strconv.Atoi(bs[j])
			os = append(os, strconv.Itoa(acc), strconv.Itoa(acc+1<<uint(b)-1))
			acc += 1 << uint(b)
		}
		emit(fmt.Sprintf("rng base=%d bits=%s ofs=%s", base, strings.Join(bs, ","), strings.Join(os, ",")))
	}
}

func init() {
	register(&Family{
		Name: "pfx",
		Rule: "internal/prefix driven directly: GenerateLengths on every ascending count vector over alphabets <= 5 (quick) / 6 (thorough) with counts 0..4 x 3 limits, plus Fibonacci, power-of-two, geometric, constant and random profiles up to 704 symbols x limits ceil(log2 n)..27; GeneratePrefixes on random complete, incomplete, over-subscribed, zero-length and unsorted length vectors (incl. 9..15-bit codes that need link tables) and every length vector over <= 4 symbols with lengths 1..3, each followed by decoding random bytes through a Peek source and a ReadByte source and by an encode/decode of every symbol; RangeEncoder on random stacked ranges. Non-trivial = at least 2 symbols; distinct by input vector",
		Gen:  genPfx,
		Exec: execPfx,
	})
}
