package main

// Family "brr": brotli.Reader against the Go-shaped Lean model of it
// (lean/Compress/Brotli/Impl.lean), Read call by Read call.

import (
	"bytes"
	"fmt"
	"io"
	"strconv"
	"strings"

	"github.com/dsnet/compress/brotli"
)

const brrMaxOut = 30000

type brrRec struct {
	n      int
	inOff  int64
	outOff int64
}

// brrRun drives brotli.Reader over a bytes.Reader with the schedule of Read sizes (the last repeats).
func brrRun(in []byte, sched []int, capOut int) (recs []brrRec, out []byte, err error, tooBig bool) {
	zr, _ := brotli.NewReader(bytes.NewReader(in), nil)
	for i := 0; err == nil; i++ {
		n := sched[min(i, len(sched)-1)]
		buf := make([]byte, n)
		var k int
		k, err = zr.Read(buf)
		out = append(out, buf[:k]...)
		recs = append(recs, brrRec{k, zr.InputOffset, zr.OutputOffset})
		if len(out) > capOut {
			return recs, out, err, true
		}
		if i > 1<<22 {
			err = fmt.Errorf("no progress")
		}
	}
	return recs, out, err, false
}

func brrFormat(recs []brrRec, out []byte, err error) string {
	var sb strings.Builder
	for i, r := range recs {
		if i > 0 {
			sb.WriteByte(',')
		}
		fmt.Fprintf(&sb, "%d/%d/%d", r.n, r.inOff, r.outOff)
	}
	all := sb.String()
	shown := "-"
	if len(recs) <= 48 {
		shown = all
	}
	return fmt.Sprintf("%s:%d:%s:%s:%d:%s:%s", shown, len(recs), fnvHex([]byte(all)), hx(out[:min(len(out), 64)]), len(out), fnvHex(out), errClass(err))
}

func execBrr(o *Out, id, line string) {
	_, kv := parseLine(line)
	in := unhx(kv["in"])
	// first pass with large Reads: how much does this input deliver?
	var out0 []byte
	var err0 error
	var big bool
	var p interface{}
	if !withWatchdog(timeSec(60), func() {
		_, p = catch(func() { _, out0, err0, big = brrRun(in, []int{4096}, brrMaxOut) })
	}) {
		o.Violate("C08", "brotli.Reader did not finish within 60s", "brotli-hang", line)
		return
	}
	if p != nil {
		o.Violate("C08", fmt.Sprintf("brotli.Reader panicked: %v", p), "brotli-panic", line)
		return
	}
	if big {
		o.Count("skipped-large")
		return
	}
	cls0 := errClass(err0)
	o.Count("class-" + cls0)
	h := uint64(len(in))*0x9e3779b97f4a7c15 + 11
	for _, b := range in[:min(len(in), 24)] {
		h = (h ^ uint64(b)) * 1099511628211
	}
	rr := NewRand(h)
	scheds := [][]int{{4096}, {1}, {0, 0, 1, 0, 7}, {100000}}
	var rs []int
	for k := 1 + rr.Intn(6); k > 0; k-- {
		rs = append(rs, rr.Pick([]int{0, 1, 1, 2, 3, 7, 100, 1000, 4096, 40000}))
	}
	if rs[len(rs)-1] == 0 {
		rs = append(rs, 1+rr.Intn(5000))
	}
	scheds = append(scheds, rs)
	if s, ok := kv["sched"]; ok { // a replayed or corpus line may fix the schedule
		scheds = [][]int{parseInts(s)}
	} else if o.tier != "thorough" && len(out0) == 0 && len(in) <= 2 {
		scheds = scheds[:2] // the tiny exhaustive inputs that deliver nothing: two schedules in the quick tier
	}
	for q, sched := range scheds {
		if len(sched) == 0 || sched[len(sched)-1] == 0 {
			continue
		}
		recs, out, err, _ := brrRun(in, sched, 1<<30)
		var ss []string
		for _, v := range sched {
			ss = append(ss, strconv.Itoa(v))
		}
		sid := fmt.Sprintf("%ss%d", id, q)
		inLine := ""
		if q == 0 {
			inLine = line
		}
		key := ""
		if q == 0 && (len(out) > 0 || err == io.EOF) {
			key = kv["in"]
		}
		o.Emit(sid, inLine, "brr id="+sid+" in="+hx(in)+" sched="+strings.Join(ss, ","), brrFormat(recs, out, err), key)
		// the properties themselves, on the implementation
		cls := errClass(err)
		if cls != cls0 || !bytes.Equal(out, out0) {
			o.Violate("C10", fmt.Sprintf("brotli Read sizes %v change the result: %s/%d bytes vs %s/%d bytes", sched, cls, len(out), cls0, len(out0)), "read-size-dependent", line)
		}
		if cls != "eof" && cls != "ueof" && cls != "corrupt" {
			o.Violate("C09", "brotli.Reader failed with class "+cls, "class-"+cls, line)
		}
		if n := len(recs); n > 0 && recs[n-1].outOff != int64(len(out)) {
			o.Violate("C11", fmt.Sprintf("brotli OutputOffset=%d after delivering %d bytes", recs[n-1].outOff, len(out)), "output-offset", line)
		}
	}
}

func genBrr(r *Rand, tier string, emit func(string)) {
	thorough := tier == "thorough"
	// the inputs of family brd, thinned: the model is run once per schedule
	pick := r.Fork()
	two := 0
	genBrd(r, tier, func(l string) {
		if !strings.HasPrefix(l, "brd ") {
			return
		}
		_, kv := parseLine(l)
		if kv["cap"] != "" {
			return
		}
		n := len(kv["in"]) / 2
		if kv["in"] == "-" {
			n = 0
		}
		keep := true
		switch {
		case n <= 1:
		case n == 2:
			two++
			keep = thorough && two%16 == 0 || !thorough && two%40 == 0
		default:
			// the generator emits its classes in blocks; thin every class by the same random rule
			d := 6
			if thorough {
				d = 12
			}
			keep = pick.Intn(d) == 0
		}
		if keep {
			emit("brr in=" + kv["in"])
		}
	})
}

func init() {
	register(&Family{
		Name: "brr",
		Rule: "the inputs of family brd (every string of <= 1 byte, a stride of the 2-byte strings, and a random sixth (quick) or twelfth (thorough) of: libbrotlienc output at qualities 0-11, one-command static-dictionary/transform streams, streams of the independent synthesiser incl. uncompressed and metadata meta-blocks, complex prefix codes item by item, bit flips / overwrites / truncations / extensions), those that deliver at most 30000 bytes. Each is read from a bytes.Reader through brotli.Reader with the Read schedules {4096}, {1}, {0,0,1,0,7}, {100000} and one random schedule; recorded per Read call: bytes returned, InputOffset, OutputOffset; then the output and the final error class. The same line goes through the Go-shaped Lean model (Brotli/Impl.lean) and must print the same. Oracles on the implementation: same bytes and class under every schedule (C10), class in {eof, ueof, corrupt} (C09), OutputOffset = bytes delivered (C11). Non-trivial = delivered output or accepted",
		Gen:  genBrr,
		Exec: execBrr,
	})
}
