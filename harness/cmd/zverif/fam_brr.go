package main

// Family "brr": brotli.Reader against the Go-shaped Lean model of it
// (lean/Compress/Brotli/Impl.lean), Read call by Read call.

import (
	"bytes"
	"fmt"
	"io"
	"strconv"
	"strings"

	"github.com/dsnet/compress/brotli"
)

const brrMaxOut = 30000

type brrRec struct {
	n      int
	inOff  int64
	outOff int64
}

// brrRun drives brotli.Reader over a bytes.Reader with the schedule of Read sizes (the last repeats).
func brrRun(in []byte, sched []int, capOut int) (recs []brrRec, out []byte, err error, tooBig bool) {
	zr, _ := brotli.NewReader(bytes.NewReader(in), nil)
	for i := 0; err == nil; i++ {
		n := sched[min(i, len(sched)-1)]
		buf := make([]byte, n)
		var k int
		k, err = zr.Read(buf)
		out = append(out, buf[:k]...)
		recs = append(recs, brrRec{k, zr.InputOffset, zr.OutputOffset})
		if len(out) > capOut {
			return recs, out, err, true
		}
		if i > 1<<22 {
			err = fmt.Errorf("no progress")
		}
	}
	return recs, out, err, false
}

func brrFormat(recs []brrRec, out []byte, err error) string {
	var sb strings.Builder
	for i, r := range recs {
		if i > 0 {
			sb.WriteByte(',')
		}
		fmt.Fprintf(&sb, "%d/%d/%d", r.n, r.inOff, r.outOff)
	}
	all := sb.String()
	shown := "-"
	if len(recs) <= 48 {
		shown = all
	}
	return fmt.Sprintf("%s:%d:%s:%s:%d:%s:%s", shown, len(recs), fnvHex([]byte(all)), hx(out[:min(len(out), 64)]), len(out), fnvHex(out), errClass(err))
}

func execBrr(o *Out, id, line string) {
	_, kv := parseLine(line)
	in := unhx(kv["in"])
	// first pass with large Reads: how much does this input deliver?
	var out0 []byte
	var err0 error
	var big bool
	var p interface{}
	if !withWatchdog(timeSec(60), func() {
		_, p = catch(func() { _, out0, err0, big = brrRun(in, []int{4096}, brrMaxOut) })
	}) {
		o.Violate("C08", "brotli.Reader did not finish within 60s", "brotli-hang", line)
		return
	}
	if p != nil {
		o.Violate("C08", fmt.Sprintf("brotli.Reader panicked: %v", p), "brotli-panic", line)
		return
	}
	if big {
		o.Count("skipped-large")
		return
	}
	cls0 := errClass(err0)
	o.Count("class-" + cls0)
	h := uint64(len(in))*0x9e3779b97f4a7c15 + 11
	for _, b := range in[:min(len(in), 24)] {
		h = (h ^ uint64(b)) * 1099511628211
	}
	rr := NewRand(h)
	scheds := [][]int{{4096}, {1}, {0, 0, 1, 0, 7}, {100000}}
	var rs []int
	for k := 1 + rr.Intn(6); k > 0; k-- {
		rs = append(rs, rr.Pick([]int{0, 1, 1, 2, 3, 7, 100, 1000, 4096, 40000}))
	}
	if rs[len(rs)-1] == 0 {
		rs = append(rs, 1+rr.Intn(5000))
	}
	scheds = append(scheds, rs)
	if s, ok := kv["sched"]; ok { // a replayed or corpus line may fix the schedule
		scheds = [][]int{parseInts(s)}
	} else if o.tier != "thorough" && len(out0) == 0 && len(in) <= 2 {
		scheds = scheds[:2] // the tiny exhaustive inputs that deliver nothing: two schedules in the quick tier
	}
	for q, sched := range scheds {
		if len(sched) == 0 || sched[len(sched)-1] == 0 {
			continue
		}
		recs, out, err, _ := brrRun(in, sched, 1<<30)
		var ss []string
		for _, v := range sched {
			ss = append(ss, strconv.Itoa(v))
		}
		sid := fmt.Sprintf("%ss%d", id, q)
		inLine := ""
		if q == 0 {
			inLine = line
		}
		key := ""
		if q == 0 && (len(out) > 0 || err == io.EOF) {
			key = kv["in"]
		}
		o.Emit(sid, inLine, "brr id="+sid+" in="+hx(in)+" sched="+strings.Join(ss, ","), brrFormat(recs, out, err), key)
		// the properties themselves, on the implementation
		cls := errClass(err)
		if cls != cls0 || !bytes.Equal(out, out0) {
			o.Violate("C10", fmt.Sprintf("brotli Read sizes %v change the result: %s/%d bytes vs %s/%d bytes", sched, cls, len(out), cls0, len(out0)), "read-size-dependent", line)
		}
		if cls != "eof" && cls != "ueof" && cls != "corrupt" {
			o.Violate("C09", "brotli.Reader failed with class "+cls, "class-"+cls, line)
		}
		if n := len(recs); n > 0 && recs[n-1].outOff != int64(len(out)) {
			o.Violate("C11", fmt.Sprintf("brotli OutputOffset=%d after delivering %d bytes", recs[n-1].outOff, len(out)), "output-offset", line)
		}
	}
}

func genBrr(r *Rand, tier string, emit func(string)) {
	thorough := tier == "thorough"
	// the inputs of family brd, thinned: the model is run once per schedule
	pick := r.Fork()
	two := 0
	genBrd(r, tier, func(l string) {
		if !strings.HasPrefix(l, "brd ") {
			return
		}
		_, kv := parseLine(l)
		if kv["cap"] != "" {
			return
		}
		n := len(kv["in"]) / 2
		if kv["in"] == "-" {
			n = 0
		}
		keep := true
		switch {
		case n <= 1:
		case n == 2:
			two++
			keep = thorough && two%16 == 0 || !thorough && two%40 == 0
		default:
			// the generator emits its classes in blocks; thin every class by the same random rule
			d := 6
			if thorough {
				d = 12
			}
			keep = pick.Intn(d) == 0
		}
		if keep {
			emit("brr in=" + kv["in"])
		}
	})
	// literals, window copies and dictionary words cut by the full window (re-entry of readCommands
	// through every stepState), and the same cuts one position earlier / later
	ncut := 40
	if thorough {
		ncut = 600
	}
	for i := 0; i < ncut; i++ {
		k := pick.Intn(30)
		pre := 1008 - k
		switch i % 3 {
		case 0: // static dictionary word
			L := 4 + pick.Intn(21)
			emit("brr in=" + hx(cutStream(pick, pre, pick.Intn(3), L, pick.Intn(1<<brNDBits[L]), pick.Pick([]int{0, 1, 2, 5, 10, 13, 29, 44, 62, 73, 83}), 0, 0)))
		case 1: // copy from the window
			emit("brr in=" + hx(cutStream(pick, pre, pick.Intn(3), 0, 0, 0, 1+pick.Intn(pre), 2+pick.Intn(60))))
		default: // literals
			emit("brr in=" + hx(cutStream(pick, pre, 1+pick.Intn(60), 0, 0, 0, 1+pick.Intn(pre), 2+pick.Intn(8))))
		}
	}
}

func init() {
	register(&Family{
		Name: "brr",
		Rule: "the inputs of family brd (every string of <= 1 byte, a stride of the 2-byte strings, and a random sixth (quick) or twelfth (thorough) of: libbrotlienc output at qualities 0-11, one-command static-dictionary/transform streams, streams of the independent synthesiser incl. uncompressed and metadata meta-blocks, complex prefix codes item by item, bit flips / overwrites / truncations / extensions), those that deliver at most 30000 bytes; plus streams with WBITS = 10 in which the literals, the window copy or the transformed static-dictionary word of a command is cut by the full window (1008 bytes) at a random position, so that readCommands suspends in each of its three sub-states and is re-entered. Each is read from a bytes.Reader through brotli.Reader with the Read schedules {4096}, {1}, {0,0,1,0,7}, {100000} and one random schedule; recorded per Read call: bytes returned, InputOffset, OutputOffset; then the output and the final error class. The same line goes through the Go-shaped Lean model (Brotli/Impl.lean) and must print the same. Oracles on the implementation: same bytes and class under every schedule (C10), class in {eof, ueof, corrupt} (C09), OutputOffset = bytes delivered (C11). Non-trivial = delivered output or accepted",
		Gen:  genBrr,
		Exec: execBrr,
	})
}

// cutStream: WBITS = 10 (window 1008 bytes = the first size of the lazily grown buffer), an
// uncompressed meta-block of `pre` bytes, then a last compressed meta-block with `lits` literals and one
// copy: from the static dictionary (word length L, index idx, transform t) or, if L == 0, `cl` bytes from
// distance `dist` back. With pre near 1008 the literals / the copy / the word is cut by the full window:
// readCommands suspends in stateLiterals / stateDynamicDict / stateStaticDict and is re-entered.
func cutStream(r *Rand, pre, lits, L, idx, t, dist, cl int) []byte {
	w := &bitW{}
	w.bit(1)
	w.bits(0, 3)
	w.bits(2, 3) // WBITS = 10
	// uncompressed meta-block
	w.bit(0)     // ISLAST
	w.bits(0, 2) // MNIBBLES = 4
	w.bits(uint64(pre-1), 16)
	w.bit(1) // ISUNCOMPRESSED
	w.align()
	for i := 0; i < pre; i++ {
		w.bits(uint64('a'+i%23), 8)
	}
	// compressed meta-block
	var word []byte
	if L > 0 {
		word = brotli.VerifTransformWord(brDictWord(L, idx), t)
		cl = L
	}
	produced := len(word)
	if L == 0 {
		produced = cl
	}
	mlen := lits + produced
	if mlen == 0 {
		mlen = 1
	}
	w.bit(1) // ISLAST
	w.bit(0)
	w.bits(0, 2)
	w.bits(uint64(mlen-1), 16)
	w.bit(0)
	w.bit(0)
	w.bit(0)
	w.bits(0, 2) // NPOSTFIX
	w.bits(0, 4) // NDIRECT
	w.bits(0, 2)
	w.bit(0)
	w.bit(0)
	writeSimple(w, r, 256, []int{'x'})
	// insert code for `lits`, copy code for `cl`
	ic, iex, cc, cex := 0, 0, 0, 0
	for c := 0; c < 24; c++ {
		if brInsBase[c] <= lits && lits < brInsBase[c]+(1<<brInsExtra[c]) {
			ic, iex = c, lits-brInsBase[c]
		}
		if brCopyBase[c] <= cl && cl < brCopyBase[c]+(1<<brCopyExtra[c]) {
			cc, cex = c, cl-brCopyBase[c]
		}
	}
	cell := -1
	for i, cdef := range brCells {
		if cdef[2] == 0 && cdef[0] == ic&^7 && cdef[1] == cc&^7 {
			cell = i
		}
	}
	cmd := cell<<6 | (ic&7)<<3 | cc&7
	pc := writeSimple(w, r, 704, []int{cmd})
	hist := min(pre+lits, 1008)
	d := dist
	if L > 0 {
		d = hist + 1 + idx + t<<brNDBits[L]
	}
	dsym, dex, nbits := 0, 0, uint(0)
	for nb := uint(1); nb <= 24; nb++ {
		for h := 0; h < 2; h++ {
			off := ((2 + h) << nb) - 4
			if off <= d-1 && d-1 < off+(1<<nb) {
				dsym, dex, nbits = 16+2*int(nb-1)+h, d-1-off, nb
			}
		}
	}
	pd := writeSimple(w, r, 64, []int{dsym})
	pc.put(w, cmd)
	w.bits(uint64(iex), brInsExtra[ic])
	w.bits(uint64(cex), brCopyExtra[cc])
	pd.put(w, dsym)
	w.bits(uint64(dex), nbits)
	w.align()
	return w.buf
}

// brDictWord returns word `idx` of length L of the static dictionary.
func brDictWord(L, idx int) []byte {
	dict := brotli.VerifStaticDict()
	off := 0
	for l := 4; l < L; l++ {
		off += l << brNDBits[l]
	}
	return dict[off+idx*L : off+(idx+1)*L]
}
