import re
src = open('/repo/brotli/context.go').read()
def lut(name):
    m = re.search(name + r' = \[256\]uint8\{(.*?)\}', src, re.S)
    return [int(x) for x in re.findall(r'\d+', m.group(1))]
l0, l1, l2 = lut('contextLUT0'), lut('contextLUT1'), lut('contextLUT2')
assert len(l0)==len(l1)==len(l2)==256
tsrc = open('/repo/brotli/transform.go').read()
body = tsrc[tsrc.index('var transformLUT'):tsrc.index('// transformWord')]
ents = re.findall(r'\{("(?:[^"\\]|\\.)*"), (transform\w+), ("(?:[^"\\]|\\.)*")\}', body)
assert len(ents)==121, len(ents)
def gostr(s):
    s = s[1:-1]
    out = bytearray(); i = 0
    while i < len(s):
        c = s[i]
        if c == '\\':
            n = s[i+1]
            if n == 'x': out.append(int(s[i+2:i+4],16)); i += 4
            elif n == 'n': out.append(10); i += 2
            elif n == 't': out.append(9); i += 2
            elif n == '"': out.append(34); i += 2
            elif n == '\\': out.append(92); i += 2
            else: raise Exception(n)
        else:
            out.append(ord(c)); i += 1
    return bytes(out)
def leanbytes(b):
    return '[' + ', '.join(str(x) for x in b) + ']'
def kind(t):
    t = t[len('transform'):]
    if t == 'Identity': return '.identity'
    if t == 'UppercaseFirst': return '.uppercaseFirst'
    if t == 'UppercaseAll': return '.uppercaseAll'
    m = re.match(r'OmitFirst(\d)', t)
    if m: return f'.omitFirst {m.group(1)}'
    m = re.match(r'OmitLast(\d)', t)
    if m: return f'.omitLast {m.group(1)}'
    raise Exception(t)
def arr(name, doc, xs):
    lines = []
    for i in range(0, len(xs), 16):
        lines.append('  ' + ', '.join(f'{x:2d}' for x in xs[i:i+16]))
    return f'/-- {doc} -/\ndef {name} : Array Nat := #[\n' + ',\n'.join(lines) + ']\n'
o = []
o.append('''/-
Constant tables of RFC 7932 (Brotli): the context lookup tables of section 7.1,
the insert / copy / block-count code tables of sections 5 and 6, the static
dictionary geometry of section 8 (NDBITS; NWORDS and DOFFSET are computed) and
the 121 word transforms of appendix B.  The 122,784 dictionary bytes themselves
(appendix A) are a parameter of the decoder.  Core-only.
-/
namespace Compress.Brotli

/-! ### section 7.1: context lookup tables -/
''')
o.append(arr('lut0', 'RFC 7932 section 7.1, `Lut0` (UTF8 context mode, last byte).', l0))
o.append(arr('lut1', 'RFC 7932 section 7.1, `Lut1` (UTF8 context mode, second-last byte).', l1))
o.append(arr('lut2', 'RFC 7932 section 7.1, `Lut2` (signed context mode).', l2))
o.append('''
/-! ### sections 5 and 6: (base value, extra bits) of the length codes -/

/-- a table row: values `base .. base + 2^extra - 1` are coded by `extra` extra bits. -/
structure Range where
  base  : Nat
  extra : Nat
deriving Repr, DecidableEq, Inhabited

/-- consecutive ranges starting at `base` with the given numbers of extra bits. -/
def mkRanges : Nat → List Nat → List Range
  | _, [] => []
  | base, e :: es => ⟨base, e⟩ :: mkRanges (base + 2 ^ e) es

/-- section 5: insert length codes 0..23 (insert lengths 0..). -/
def insertRanges : Array Range :=
  (mkRanges 0 [0,0,0,0,0,0,1,1,2,2,3,3,4,4,5,5,6,7,8,9,10,12,14,24]).toArray

/-- section 5: copy length codes 0..23 (copy lengths 2..). -/
def copyRanges : Array Range :=
  (mkRanges 2 [0,0,0,0,0,0,0,0,1,1,2,2,3,3,4,4,5,5,6,7,8,9,10,24]).toArray

/-- section 6: block count codes 0..25 (block counts 1..). -/
def blockCountRanges : Array Range :=
  (mkRanges 1 [2,2,2,2,3,3,3,3,4,4,4,4,5,5,5,5,6,6,7,8,9,10,11,12,13,24]).toArray

/-- section 5: for each of the 11 cells of 64 insert-and-copy symbols, the first
    insert length code, the first copy length code, and whether the distance
    is implicitly "last distance" (distance symbol 0). -/
def commandCells : Array (Nat × Nat × Bool) := #[
  (0, 0, true), (0, 8, true), (0, 0, false), (0, 8, false),
  (8, 0, false), (8, 8, false), (0, 16, false), (16, 0, false),
  (8, 16, false), (16, 8, false), (16, 16, false)]

/-- section 3.5: order in which the code length code lengths appear. -/
def codeLengthOrder : List Nat := [1, 2, 3, 4, 0, 5, 17, 6, 16, 7, 8, 9, 10, 11, 12, 13, 14, 15]

/-- section 3.5: the fixed code for the code length code lengths 0..5
    (as code lengths of a canonical prefix code: 0 ↦ 00, 3 ↦ 01, 4 ↦ 10,
    2 ↦ 110, 1 ↦ 1110, 5 ↦ 1111, first bit read leftmost). -/
def codeLengthCodeLengths : Array Nat := #[2, 4, 3, 2, 2, 4]

/-! ### section 8 and appendix A: static dictionary geometry -/

def minDictWordLen : Nat := 4
def maxDictWordLen : Nat := 24

/-- appendix A, `NDBITS`: log2 of the number of words of each length 0..24. -/
def ndbits : Array Nat := #[0, 0, 0, 0, 10, 10, 11, 11, 10, 10, 10, 10, 10, 9, 9, 8, 7, 7, 8, 7, 7, 6, 6, 5, 5]

/-- section 8, `NWORDS[len]`. -/
def nwords (len : Nat) : Nat :=
  if len < minDictWordLen ∨ len > maxDictWordLen then 0 else 2 ^ ndbits.getD len 0

/-- section 8, `DOFFSET[len]`: offset of the first word of length `len`. -/
def doffset : Nat → Nat
  | 0 => 0
  | len+1 => doffset len + len * nwords len

/-- size of the dictionary of appendix A: 122,784 bytes. -/
def dictSize : Nat := doffset (maxDictWordLen + 1)

/-! ### appendix B: word transforms -/

inductive TransformKind where
  | identity
  | uppercaseFirst
  | uppercaseAll
  | omitFirst (n : Nat)
  | omitLast (n : Nat)
deriving Repr, Inhabited, DecidableEq

structure Transform where
  pre  : List UInt8
  kind : TransformKind
  suf  : List UInt8
deriving Repr, Inhabited

/-- appendix B: the 121 transforms (prefix, elementary transform, suffix); bytes in decimal. -/
def transforms : Array Transform := #[''')
rows = []
for i,(p,t,s) in enumerate(ents):
    rows.append(f'  ⟨{leanbytes(gostr(p))}, {kind(t)}, {leanbytes(gostr(s))}⟩' + (',' if i < 120 else ']') + f'  -- {i}: {p} {t[9:]} {s}')
o.append('\n'.join(rows))
o.append('\nend Compress.Brotli\n')
open('/tmp/agents/brotli/lean/Compress/Brotli/Tables.lean','w').write('\n'.join(o))
