module github.com/dsnet/compress/zscratch

go 1.21

require github.com/dsnet/compress v0.0.0

replace github.com/dsnet/compress => /repo
