//go:build verif

// Replay on the real meta.Reader of what C09_meta_reader_close states: Close
// returns nil on a reader that has not failed, wherever it stands in the
// stream (not only after io.EOF); afterwards Read returns the closed error.
// Also: a source error inside a block comes back verbatim and sticky, and
// InputOffset at io.EOF is the length of the stream, trailing bytes unread.
package main

import (
	"bytes"
	"errors"
	"fmt"

	"github.com/dsnet/compress/xflate"
)

type failing struct {
	data []byte
	at   int
	pos  int
}

var errInjected = errors.New("injected")

func (f *failing) ReadByte() (byte, error) {
	if f.pos >= f.at {
		return 0, errInjected
	}
	b := f.data[f.pos]
	f.pos++
	return b, nil
}
func (f *failing) Read(p []byte) (int, error) {
	if len(p) == 0 {
		return 0, nil
	}
	b, err := f.ReadByte()
	if err != nil {
		return 0, err
	}
	p[0] = b
	return 1, nil
}

func main() {
	var bb bytes.Buffer
	mw := xflate.VerifNewMetaWriter(&bb)
	xflate.VerifSetFinalMode(mw, xflate.VerifFinalMeta)
	payload := bytes.Repeat([]byte("abcdefghijklmnopqrstuvwxyz0123456789"), 3)
	mw.Write(payload)
	mw.Close()
	stream := bb.Bytes()
	fmt.Printf("stream: %d bytes, %d blocks\n", len(stream), mw.NumBlocks)

	// (1) Close mid-stream
	mr := xflate.VerifNewMetaReader(bytes.NewReader(stream))
	buf := make([]byte, 1)
	n, err := mr.Read(buf)
	fmt.Printf("Read(1) = %d, %v; InputOffset=%d OutputOffset=%d NumBlocks=%d\n", n, err, mr.InputOffset, mr.OutputOffset, mr.NumBlocks)
	fmt.Printf("Close() = %v (the stream has %d more payload bytes)\n", mr.Close(), len(payload)-1)
	n, err = mr.Read(buf)
	fmt.Printf("Read(1) = %d, %v\n", n, err)
	fmt.Printf("Close() = %v\n", mr.Close())

	// (2) trailing bytes after the final block stay unread
	src := bytes.NewReader(append(append([]byte{}, stream...), 0xaa, 0xbb))
	mr = xflate.VerifNewMetaReader(src)
	var got []byte
	big := make([]byte, 7)
	for {
		n, err = mr.Read(big)
		got = append(got, big[:n]...)
		if err != nil {
			break
		}
	}
	fmt.Printf("to EOF: err=%v payload ok=%v InputOffset=%d (stream %d) source left=%d FinalMode=%d\n", err, bytes.Equal(got, payload), mr.InputOffset, len(stream), src.Len(), mr.FinalMode)

	// (3) a source error inside the second block: verbatim, sticky, reported by Close
	mr = xflate.VerifNewMetaReader(&failing{data: stream, at: len(stream) - 5})
	got = got[:0]
	for {
		n, err = mr.Read(big)
		got = append(got, big[:n]...)
		if err != nil {
			break
		}
	}
	fmt.Printf("faulting source: delivered %d bytes, err=%v (same value: %v) InputOffset=%d\n", len(got), err, err == errInjected, mr.InputOffset)
	n, e2 := mr.Read(big)
	fmt.Printf("again: %d, %v; Close() = %v\n", n, e2, mr.Close())
}
