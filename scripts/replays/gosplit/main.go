package main

import (
	"bytes"
	"fmt"
	"math/rand"

	"github.com/dsnet/compress/xflate"
)

type flushAt struct {
	pos  int
	mode xflate.FlushMode
}

// run writes data with flushes at the given positions, splitting the writes at `cuts`
// (extra boundaries, possibly repeated => empty writes).
func run(conf *xflate.WriterConfig, data []byte, fl []flushAt, cuts []int, doClose bool) ([]byte, error) {
	var buf bytes.Buffer
	xw, err := xflate.NewWriter(&buf, conf)
	if err != nil {
		return nil, err
	}
	pos := 0
	ci := 0
	writeTo := func(end int) error {
		for ci < len(cuts) && cuts[ci] <= end {
			if cuts[ci] >= pos {
				if _, err := xw.Write(data[pos:cuts[ci]]); err != nil {
					return err
				}
				pos = cuts[ci]
			}
			ci++
		}
		if end > pos {
			if _, err := xw.Write(data[pos:end]); err != nil {
				return err
			}
			pos = end
		}
		return nil
	}
	for _, f := range fl {
		if err := writeTo(f.pos); err != nil {
			return nil, err
		}
		if err := xw.Flush(f.mode); err != nil {
			return nil, err
		}
	}
	if err := writeTo(len(data)); err != nil {
		return nil, err
	}
	if doClose {
		if err := xw.Close(); err != nil {
			return nil, err
		}
	}
	return buf.Bytes(), nil
}

func main() {
	rng := rand.New(rand.NewSource(1))
	trials, diffs := 0, 0
	for it := 0; it < 300; it++ {
		n := rng.Intn(5000)
		data := make([]byte, n)
		switch rng.Intn(3) {
		case 0:
			rng.Read(data)
		case 1:
			for i := range data {
				data[i] = byte(rng.Intn(4))
			}
		default:
			for i := range data {
				data[i] = byte(i / 7)
			}
		}
		chunk := int64(1 + rng.Intn(700))
		if rng.Intn(4) == 0 {
			chunk = int64(1 + rng.Intn(8))
		}
		conf := &xflate.WriterConfig{Level: rng.Intn(12) - 2, ChunkSize: chunk, IndexSize: int64(rng.Intn(6) - 1)}
		if conf.Level < -2 || conf.Level > 9 {
			conf.Level = 6
		}
		var fl []flushAt
		p := 0
		for k := rng.Intn(6); k > 0 && n > 0; k-- {
			p += rng.Intn(n-p+1) / 2
			// include positions that are exact multiples of the chunk size
			if rng.Intn(3) == 0 {
				p = int((int64(p) / chunk) * chunk)
			}
			fl = append(fl, flushAt{p, xflate.FlushMode(rng.Intn(3))})
		}
		// sort flush positions (they are generated nondecreasing except for rounding down)
		for i := 1; i < len(fl); i++ {
			if fl[i].pos < fl[i-1].pos {
				fl[i].pos = fl[i-1].pos
			}
		}
		doClose := rng.Intn(5) != 0
		ref, err := run(conf, data, fl, nil, doClose)
		if err != nil {
			fmt.Println("ref error", err)
			continue
		}
		for v := 0; v < 4; v++ {
			var cuts []int
			c := 0
			for c < n {
				step := rng.Intn(1 + rng.Intn(300))
				c += step
				if c <= n {
					cuts = append(cuts, c)
				}
			}
			if v == 3 { // byte by byte
				cuts = cuts[:0]
				for i := 0; i <= n; i++ {
					cuts = append(cuts, i)
				}
			}
			got, err := run(conf, data, fl, cuts, doClose)
			trials++
			if err != nil || !bytes.Equal(got, ref) {
				diffs++
				fmt.Printf("DIFF it=%d v=%d conf=%+v n=%d flushes=%v close=%v err=%v len %d vs %d\n", it, v, *conf, n, fl, doClose, err, len(got), len(ref))
			}
		}
	}
	fmt.Printf("trials=%d diffs=%d\n", trials, diffs)
	big()
}

func big() {
	rng := rand.New(rand.NewSource(2))
	trials, diffs := 0, 0
	for it := 0; it < 40; it++ {
		n := 100000 + rng.Intn(400000)
		data := make([]byte, n)
		for i := range data {
			if it%2 == 0 {
				data[i] = byte(rng.Intn(6))
			} else {
				data[i] = byte((i * i) >> 9)
			}
		}
		chunks := []int64{0, 65536, 100000, 70001}
		conf := &xflate.WriterConfig{Level: rng.Intn(12) - 2, ChunkSize: chunks[rng.Intn(4)], IndexSize: int64(rng.Intn(4) - 1)}
		if conf.Level > 9 {
			conf.Level = 1
		}
		var fl []flushAt
		p := 0
		for k := rng.Intn(4); k > 0; k-- {
			p += rng.Intn(n-p+1) / 2
			fl = append(fl, flushAt{p, xflate.FlushMode(rng.Intn(3))})
		}
		ref, err := run(conf, data, fl, nil, true)
		if err != nil {
			fmt.Println("ref error", err)
			continue
		}
		for v := 0; v < 3; v++ {
			var cuts []int
			c := 0
			maxStep := []int{70000, 5000, 300}[v]
			for c < n {
				c += rng.Intn(1 + rng.Intn(maxStep))
				if c <= n {
					cuts = append(cuts, c)
				}
			}
			got, err := run(conf, data, fl, cuts, true)
			trials++
			if err != nil || !bytes.Equal(got, ref) {
				diffs++
				fmt.Printf("BIGDIFF it=%d v=%d conf=%+v n=%d flushes=%v err=%v len %d vs %d\n", it, v, *conf, n, fl, err, len(got), len(ref))
			}
		}
	}
	fmt.Printf("big trials=%d diffs=%d\n", trials, diffs)
}
