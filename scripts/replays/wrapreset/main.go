// Replay of the boundary of C10_wrapper_contract / C14_wrapper_reinit on the real code
// (Proofs/WrapInit.lean, last example): the look-ahead cache of wrap.go's bytesReader is only
// dropped by prefix.Reader.Init.  An owner that re-targets the *bytes.Reader under a live
// prefix.Reader (Reset, no Init) is served the OLD bytes; with Init in between (what every Reset
// in this repository does) the new bytes are served.  Not a defect of the contract: the contents
// of a wrapped source object must not change between two Init calls.
package main

import (
	"bytes"
	"fmt"

	"github.com/dsnet/compress/internal/prefix"
)

func main() {
	old := bytes.Repeat([]byte{0x11}, 600)
	neu := bytes.Repeat([]byte{0x22}, 600)

	rr := bytes.NewReader(old)
	var pr prefix.Reader
	pr.Init(rr, false)
	fmt.Printf("first stream : ReadBits(8)=%#x\n", pr.ReadBits(8)) // Peek fills the 512-byte cache
	pr.ReadPads()
	// empty the 64-bit bit buffer (7 more bytes), so that only the wrapper cache is left
	for i := 0; i < 7; i++ {
		pr.ReadBits(8)
	}
	pr.Flush()
	rr.Reset(neu) // owner re-targets the same object, NO Init
	fmt.Printf("Reset, no Init: ReadBits(8)=%#x (source now holds 0x22 only)\n", pr.ReadBits(8))

	rr.Reset(neu)
	pr.Init(rr, false)
	fmt.Printf("Reset + Init  : ReadBits(8)=%#x\n", pr.ReadBits(8))
}
