// Replay of the excluded point of C13_bzip2_sink_prefix (hypothesis `forever`):
// a sink that fails ONCE with a short write while bzip2.Writer is inside a block.
// After the failure has been recovered, flush()/Close() still call zw.wr.Flush(),
// which hands the (unshifted) staging buffer to the sink again.
package main

import (
	"bytes"
	"errors"
	"fmt"
	"math/rand"

	"github.com/dsnet/compress/bzip2"
)

type onceSink struct {
	got    []byte
	budget int
	failed bool
}

func (s *onceSink) Write(b []byte) (int, error) {
	if s.failed || len(b) <= s.budget {
		s.got = append(s.got, b...)
		s.budget -= len(b)
		return len(b), nil
	}
	s.failed = true
	n := s.budget
	s.got = append(s.got, b[:n]...)
	return n, errors.New("injected")
}

func main() {
	r := rand.New(rand.NewSource(1))
	data := make([]byte, 700)
	r.Read(data)
	var ref bytes.Buffer
	zw, _ := bzip2.NewWriter(&ref, &bzip2.WriterConfig{Level: 1})
	zw.Write(data)
	zw.Close()
	s := &onceSink{budget: 100}
	zw, _ = bzip2.NewWriter(s, &bzip2.WriterConfig{Level: 1})
	n, e1 := zw.Write(data)
	e2 := zw.Close()
	e3 := zw.Close()
	fmt.Printf("fault-free output: %d bytes\n", ref.Len())
	fmt.Printf("Write=%d,%v Close=%v Close=%v OutputOffset=%d sink got %d bytes\n", n, e1, e2, e3, zw.OutputOffset, len(s.got))
	fmt.Printf("first 100 bytes (before the failure) are a prefix of the fault-free bytes: %v\n", bytes.HasPrefix(ref.Bytes(), s.got[:100]))
	fmt.Printf("all bytes the sink received are a prefix of the fault-free bytes: %v\n", bytes.HasPrefix(ref.Bytes(), s.got))
	fmt.Printf("bytes after the failure repeat the head of the stream: %v\n", bytes.HasPrefix(ref.Bytes(), s.got[100:100+300]))
}
