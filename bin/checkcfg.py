"""Per-property configuration of bin/check: which Lean module holds the property
theorems, which harness families give the correspondence and the oracle sweep."""

ZR = "contract ZRSpec: Go's standard-library compress/flate inflater behind xflate's chunkReader is summarised per segment (bytes delivered, how it stops, input consumed, last four bytes); measured from the real library on every run, not verified"
INT64 = "int64 offsets are modelled as unbounded Int; generated offsets stay below 2^62 so no Go addition wraps"

CHECKS = {
    "C07": {
        "families": ["xr"],
        "trusted_base": [ZR, INT64, "the underlying io.ReadSeeker is exact (failing sources belong to C09)"],
        "assumptions": [ZR, INT64],
        "level_text": "full: Lean theorem C07_readseeker — for every well-formed layout (any chunks, empty chunks, several indexes), every sequence of Seek (any offset/whence incl. invalid) and Read (any buffer length incl. 0) and every legal behaviour of the inflater, the trace of the xflate.Reader model is a trace of a ReadSeeker over the plaintext; Read always returns (loop bound proved); index.Search proved equal to its specification. The two defects this exposed (D1, D2) are repaired in /repo and kept as machine-checked counter-examples on the pre-fix model.",
        "level_note": "Trusted: Lean kernel (axioms propext, Classical.choice, Quot.sound only); the model of Reader.Read/Seek/Close is hand-written and tied to /repo by a call-by-call correspondence run (48k op sequences per quick run, incl. state hook offset) — sampling, not proof; the standard-library inflater is a contract (ZRSpec) measured on every run; int64 wrap-around and failing ReadSeekers are outside this theorem.",
        "explanation": "simulation theorem: every Seek/Read sequence on the xflate.Reader model returns what a ReadSeeker over the plaintext returns, for every well-formed layout and every adversarial choice of inflater read sizes",
    },
}

CHECKS["C16"] = {
    "families": ["meta"],
    "trusted_base": ["the bit-level model of encodeBlock/decodeBlock/Writer.Write buffering/ReverseSearch is hand-written; the 64-bit buffer and staging of prefix.Reader/Writer underneath are not represented here (C20 covers them)"],
    "assumptions": ["bit I/O of internal/prefix delivers the bit list it was given (C20)"],
    "level_text": "full except the converse direction: Lean theorems C16_block_roundtrip and C16_stream_roundtrip (decode (encode p m) = p, m, block count, every byte consumed, for every payload length and mode; split-independent because the model's Write is a byte fold), C16_write_total, C16_fit22 (<= 22 bytes => one block), C16_block_aligned, C16_block_size (12..64 bytes), C16_magic_only_at_start + C16_reverseSearch_spec + C16_reverseSearch_finds_last_block (signature at block starts only, so the backward search finds the last block), C16_silent_in_deflate (to the RFC 1951 specification every meta block is a complete empty dynamic block, final iff FinalStream). Not proved: the converse (whatever the meta decoder accepts is such a block sequence) - decided by the oracle sweep on mutated inputs only.",
    "level_note": "Trusted: Lean kernel (propext, Classical.choice, Quot.sound); hand-written model tied to /repo by byte-exact correspondence of encoder output, decoder verdicts and ReverseSearch on ~46k cases per quick run (all payloads <= 1 byte x 3 modes, footers, random payloads, mutations); compress/flate is the reference for the DEFLATE-silence oracle.",
    "explanation": "round-trip theorems for the meta codec model; remaining clauses checked on the implementation by the oracle",
}

CHECKS["C20"] = {
    "families": ["pfx", "bio"],
    "trusted_base": ["hand-written models of GenerateLengths/GeneratePrefixes/Decoder.Init/Encoder.Init/RangeEncoder and of prefix.Reader/Writer (64-bit buffer incl. look-ahead bits, both source modes, staging buffer)",
                     "sort.Sort is not modelled: GenerateLengths' precondition (counts ascending) is taken as given"],
    "assumptions": ["uint32 counts/symbols are modelled as Nat (no overflow below 2^32 in the generated profiles)"],
    "level_text": "full for code construction: Lean theorems C20_lengths_total (GenerateLengths returns for every ascending count table and every limit that can hold the alphabet: treeRotate never underflows), C20_lengths_complete (Kraft equality and limit, incl. the length-limited branch that bzip2 hits at 20 bits), C20_lengths_monotone, C20_prefixes_ok_iff / C20_prefixes_sound (GeneratePrefixes accepts exactly the complete vectors; result prefix-free and canonical), C20_decoder_correct (two-level table = code search, incl. link tables), C20_encoder_correct (terminates, maps each symbol to its code), C20_range_correct. Bit I/O round trip (H4) over the 64-bit buffer models: statement written, proof in progress; until it lands that clause is decided by the correspondence/oracle sweep (write-then-read over 4 source kinds, source-shape independence over 9 kinds).",
    "level_note": "Trusted: Lean kernel (propext, Classical.choice, Quot.sound); models tied to /repo by exact correspondence (results of GenerateLengths/GeneratePrefixes, decode and encode tables as functions, every value/offset/error of bit reader and writer scripts over scripted sources). Defect found and repaired in /repo: prefix.Reader.Read left look-ahead bits behind (D5).",
    "explanation": "code construction theorems + bit I/O correspondence",
}

ZW = "contract ZSpec: every chunk Go's compress/flate.Writer emits between Reset and Flush is, in any byte-aligned DEFLATE context, a run of complete non-final blocks that appends exactly the chunk's data (ZChunkOK); its output on each call is recorded from the real library through the verif trace hook and replayed to the model, so the model's sink is compared byte for byte"
CHECKS["C06"] = {
    "families": ["xw"],
    "trusted_base": [ZW, "Flate.Spec is my reading of RFC 1951, validated against compress/flate, zlib and dsnet flate on ~70k inputs per run (family fl)"],
    "assumptions": [ZW],
    "level_text": "full relative to the compressor contract: Lean theorem C06_plain_deflate - for every accepted configuration, every Write/Flush(any mode) schedule and a successful Close, the RFC 1951 specification decodes the emitted bytes to exactly the accepted data, consuming every bit (final bit only in the last block). Built on the proved meta-block transparency (C16_silent_in_deflate) and a structural invariant of the writer over all op sequences. The contract is non-vacuous (C06_contract_witness).",
    "level_note": "Trusted: Lean kernel; hand-written writer model tied to /repo by byte-exact correspondence of every call result, counter and the whole sink on ~18k op sequences per quick run (exhaustive depth-4 alphabets, random schedules, sink faults); compress/flate is a contract, not verified; the oracle decodes every emitted stream with compress/flate and this repository's flate.Reader, and the Lean specification decodes it too.",
    "explanation": "C06 theorem + writer correspondence + 3 decoders",
}
CHECKS["C05"] = {
    "families": ["xw", "xo"],
    "trusted_base": [ZW, ZR, "hash/crc32 is modelled by a bitwise CRC-32 (theorems hold for any 32-bit checksum)"],
    "assumptions": [ZW, ZR, "sizes below 2^63 (int64)"],
    "level_text": "partial, main parts full: Lean theorems C05_config_refused (NewWriter refuses exactly the invalid configurations), C05_index_roundtrip (for every configuration and Write/Flush schedule, Reader.Reset's parsing of the emitted bytes - footer found by backward search, index chain walked back to offset 0, CRC/totals/sizes checked - reconstructs exactly the writer's records), C05_data_accounted; with C07_readseeker (reading any well-formed layout returns the plaintext) and C06_plain_deflate. Not yet proved: that the reconstructed layout satisfies C07's WellFormed hypothesis for the inflater (the glue between C05_index_roundtrip and C07), and split-independence of the emitted bytes; both are decided by the oracle sweep (real Writer -> real Reader round trip, re-split writes must give identical bytes).",
    "level_note": "Trusted: Lean kernel; writer, open and reader models tied to /repo by correspondence (families xw, xo, xr); compress/flate both ways is a contract.",
    "explanation": "index round trip theorem + round-trip oracle",
}
CHECKS["C13"] = {
    "families": ["xw", "life"],
    "trusted_base": [ZW + "; plus ZErrSurfaced/ZErrNotClosed: the compressor returns an error (never xflate's private closed error) when the sink refused its bytes"],
    "assumptions": ["bzip2.Writer and meta.Writer on their own are not modelled at the API level: decided by the oracle sweep (family life)"],
    "level_text": "partial: full for xflate.Writer (incl. the meta encoder's block writes) - Lean theorems C13_sink_failure_latched / C13_no_false_success (once the sink refused bytes an error is latched that is not 'closed', for every history: Close never returns nil), C13_keeps_failing, C13_errors_latched, C13_sink_append_only, C13_counters, C13_input_counter, and C13_bitwriter_exact for prefix.Writer without faults. bzip2.Writer and meta.Writer: oracle sweep over random op sequences with hard/short, once/forever faults (which found and led to the repair of bzip2.Writer.Close reporting success after a failed Close, D9).",
    "level_note": "Trusted: Lean kernel; correspondence of the xflate.Writer model incl. ~1.3k fault scenarios per quick run; the fault model is a sink that fails at a byte position (hard or short write), once or forever.",
    "explanation": "latch invariant theorems + fault-injection oracle",
}
CHECKS["C18"] = {
    "families": ["life", "xw", "xr"],
    "trusted_base": ["API-level models exist for xflate.Writer and xflate.Reader only; for the other six types the lifecycle is decided by the exhaustive call-sequence sweep; guard shapes of all types are regenerated facts"],
    "assumptions": [],
    "level_text": "partial: Lean theorems C18_writer_closed / C18_writer_closed_forever (after a successful Close every Write/Flush is refused with the closed error, Close is idempotent, the state and hence the sink never change again, for every continuation), C18_close_latches, C18_reader_closed (xflate.Reader), C18_guards_in_source (regenerated from /repo). No-panic and closed-means-closed for flate/brotli/bzip2/meta Readers and bzip2/meta Writers: exhaustive depth-3 (quick) / depth-4 (thorough) call sequences under recover.",
    "level_note": "Trusted: Lean kernel; regenerated guard facts; the sweep is sampling for the six unmodelled types.",
    "explanation": "closed-state theorems + exhaustive short call sequences",
}

NOT_APPLICABLE = {}
