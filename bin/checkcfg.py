"""Per-property configuration of bin/check: which Lean module holds the property
theorems, which harness families give the correspondence and the oracle sweep."""

ZR = "contract ZRSpec: Go's standard-library compress/flate inflater behind xflate's chunkReader is summarised per segment (bytes delivered, how it stops, input consumed, last four bytes); measured from the real library on every run, not verified"
INT64 = "int64 offsets are modelled as unbounded Int; generated offsets stay below 2^62 so no Go addition wraps"

CHECKS = {
    "C07": {
        "families": ["xr"],
        "trusted_base": [ZR, INT64, "the underlying io.ReadSeeker is exact (failing sources belong to C09)"],
        "assumptions": [ZR, INT64],
        "level_text": "full: Lean theorem C07_readseeker — for every well-formed layout (any chunks, empty chunks, several indexes), every sequence of Seek (any offset/whence incl. invalid) and Read (any buffer length incl. 0) and every legal behaviour of the inflater, the trace of the xflate.Reader model is a trace of a ReadSeeker over the plaintext; Read always returns (loop bound proved); index.Search proved equal to its specification. The two defects this exposed (D1, D2) are repaired in /repo and kept as machine-checked counter-examples on the pre-fix model.",
        "level_note": "Trusted: Lean kernel (axioms propext, Classical.choice, Quot.sound only); the model of Reader.Read/Seek/Close is hand-written and tied to /repo by a call-by-call correspondence run (48k op sequences per quick run, incl. state hook offset) — sampling, not proof; the standard-library inflater is a contract (ZRSpec) measured on every run; int64 wrap-around and failing ReadSeekers are outside this theorem.",
        "explanation": "simulation theorem: every Seek/Read sequence on the xflate.Reader model returns what a ReadSeeker over the plaintext returns, for every well-formed layout and every adversarial choice of inflater read sizes",
    },
}

CHECKS["C16"] = {
    "families": ["meta"],
    "trusted_base": ["the bit-level model of encodeBlock/decodeBlock/Writer.Write buffering/ReverseSearch is hand-written; the 64-bit buffer and staging of prefix.Reader/Writer underneath are not represented here (C20 covers them)"],
    "assumptions": ["bit I/O of internal/prefix delivers the bit list it was given (C20)"],
    "level_text": "full on the model, both directions: Lean theorems C16_block_roundtrip and C16_stream_roundtrip (decode (encode p m) = p, m, block count, every byte consumed, for every payload length and mode; split-independent because the model's Write is a byte fold), C16_write_total, C16_fit22 (<= 22 bytes => one block), C16_block_aligned, C16_block_size (12..64 bytes), C16_magic_only_at_start + C16_reverseSearch_spec + C16_reverseSearch_finds_last_block (signature at block starts only, so the backward search finds the last block), C16_silent_in_deflate (to the RFC 1951 specification every meta block is a complete empty dynamic block, final iff FinalStream). Converse: C16_accepted_is_silent_deflate and C16_accepted_stream_is_silent_deflate - whatever the meta decoder model accepts, including encodings the encoder never writes (larger code length/HCLEN, other run splittings; a non-canonical accepted witness is exhibited and replayed on the Go code), is read by the RFC 1951 specification as exactly that many complete empty dynamic blocks, final iff FinalStream.",
    "level_note": "Trusted: Lean kernel (propext, Classical.choice, Quot.sound); hand-written model tied to /repo by byte-exact correspondence of encoder output, decoder verdicts and ReverseSearch on ~46k cases per quick run (all payloads <= 1 byte x 3 modes, footers, random payloads, mutations); compress/flate is the reference for the DEFLATE-silence oracle.",
    "explanation": "round-trip theorems for the meta codec model; remaining clauses checked on the implementation by the oracle",
}

CHECKS["C20"] = {
    "families": ["pfx", "bio"],
    "trusted_base": ["hand-written models of GenerateLengths/GeneratePrefixes/Decoder.Init/Encoder.Init/RangeEncoder and of prefix.Reader/Writer (64-bit buffer incl. look-ahead bits, both source modes, staging buffer)",
                     "sort.Sort is not modelled: GenerateLengths' precondition (counts ascending) is taken as given"],
    "assumptions": ["uint32 counts/symbols are modelled as Nat (no overflow below 2^32 in the generated profiles)"],
    "level_text": "full for code construction: Lean theorems C20_lengths_total (GenerateLengths returns for every ascending count table and every limit that can hold the alphabet: treeRotate never underflows), C20_lengths_complete (Kraft equality and limit, incl. the length-limited branch that bzip2 hits at 20 bits), C20_lengths_monotone, C20_prefixes_ok_iff / C20_prefixes_sound (GeneratePrefixes accepts exactly the complete vectors; result prefix-free and canonical), C20_decoder_correct (two-level table = code search, incl. link tables), C20_encoder_correct (terminates, maps each symbol to its code), C20_range_correct. Bit I/O round trip (H4) over the 64-bit buffer models: statement written, proof in progress; until it lands that clause is decided by the correspondence/oracle sweep (write-then-read over 4 source kinds, source-shape independence over 9 kinds).",
    "level_note": "Trusted: Lean kernel (propext, Classical.choice, Quot.sound); models tied to /repo by exact correspondence (results of GenerateLengths/GeneratePrefixes, decode and encode tables as functions, every value/offset/error of bit reader and writer scripts over scripted sources). Defect found and repaired in /repo: prefix.Reader.Read left look-ahead bits behind (D5).",
    "explanation": "code construction theorems + bit I/O correspondence",
}

ZW = "contract ZSpec: every chunk Go's compress/flate.Writer emits between Reset and Flush is, in any byte-aligned DEFLATE context, a run of complete non-final blocks that appends exactly the chunk's data (ZChunkOK); its output on each call is recorded from the real library through the verif trace hook and replayed to the model, so the model's sink is compared byte for byte"
CHECKS["C06"] = {
    "families": ["xw"],
    "trusted_base": [ZW, "Flate.Spec is my reading of RFC 1951, validated against compress/flate, zlib and dsnet flate on ~70k inputs per run (family fl)"],
    "assumptions": [ZW],
    "level_text": "full relative to the compressor contract: Lean theorem C06_plain_deflate - for every accepted configuration, every Write/Flush(any mode) schedule and a successful Close, the RFC 1951 specification decodes the emitted bytes to exactly the accepted data, consuming every bit (final bit only in the last block). Built on the proved meta-block transparency (C16_silent_in_deflate) and a structural invariant of the writer over all op sequences. The contract is non-vacuous (C06_contract_witness).",
    "level_note": "Trusted: Lean kernel; hand-written writer model tied to /repo by byte-exact correspondence of every call result, counter and the whole sink on ~18k op sequences per quick run (exhaustive depth-4 alphabets, random schedules, sink faults); compress/flate is a contract, not verified; the oracle decodes every emitted stream with compress/flate and this repository's flate.Reader, and the Lean specification decodes it too.",
    "explanation": "C06 theorem + writer correspondence + 3 decoders",
}
CHECKS["C05"] = {
    "families": ["xw", "xo"],
    "trusted_base": [ZW, ZR, "hash/crc32 is modelled by a bitwise CRC-32 (theorems hold for any 32-bit checksum)"],
    "assumptions": [ZW, ZR, "sizes below 2^63 (int64)"],
    "level_text": "full on the models except split-independence: Lean theorems C05_config_refused (NewWriter refuses exactly the invalid configurations), C05_index_roundtrip (for every configuration and Write/Flush schedule, Reader.Reset's parsing of the emitted bytes - footer found by backward search, index chain walked back to offset 0, CRC/totals/sizes checked - reconstructs exactly the writer's records), C05_data_accounted, and C05_roundtrip (under the compressor contract ZChunkOK the layout those records describe over the emitted bytes is well-formed for the written data, hence every Seek/Read sequence on the reader model behaves like a ReadSeeker over the written data and the end position is its length - C07 applied to the writer's output); with C06_plain_deflate. Not yet proved: split-independence of the emitted bytes (it needs the compressor as a function of the chunk data; decided by the oracle sweep: re-split writes must give identical bytes).",
    "level_note": "Trusted: Lean kernel; writer, open and reader models tied to /repo by correspondence (families xw, xo, xr); compress/flate both ways is a contract.",
    "explanation": "index round trip theorem + round-trip oracle",
}
CHECKS["C13"] = {
    "families": ["xw", "life", "lwm"],
    "trusted_base": [ZW + "; plus ZErrSurfaced/ZErrNotClosed: the compressor returns an error (never xflate's private closed error) when the sink refused its bytes"],
    "assumptions": ["the API-level models of bzip2.Writer and meta.Writer (Bzip2/WriterApi.lean, Meta/WriterApi.lean) are hand-written and tied to /repo by the call-by-call correspondence of family lwm (and the lw scenarios of family life); sinks attached by Reset have not failed before; the >20000-byte scenarios of family life and the thorough low-entropy 30000-byte job stay oracle-only (the Lean BWT is a rotation sort, ~15 s per full 100000-byte block; one full-block scenario per quick run, four per thorough run)"],
    "level_text": "full on the models of all three writers. xflate.Writer (incl. the meta encoder's block writes): C13_sink_failure_latched / C13_no_false_success, C13_keeps_failing, C13_errors_latched, C13_sink_append_only, C13_counters, C13_input_counter, C13_bitwriter_exact. bzip2.Writer and meta.Writer (API-level models over the same adversarial sink, every Write/Close/Reset sequence, every adversary): C13_bzip2_sink_failure_latched / C13_meta_sink_failure_latched (latch invariant), C13_bzip2_failed_forever / C13_meta_failed_forever (after the sink refused bytes every later Write/Close returns an error, Close never nil, until Reset), C13_*_errors_latched, C13_bzip2_no_false_success + C13_bzip2_done_decodes (done => sink = what it held + encodeStream level (accepted data), which the format specification decodes to the accepted data), C13_meta_no_false_success (sink = blocks of Meta.encode), C13_*_close_nil_complete, C13_bzip2_counters / C13_meta_counters (InputOffset = bytes accepted, OutputOffset = bytes the sink accepted, after every call incl. failing ones), C13_bzip2_sink_prefix / C13_meta_sink_prefix (identical to the fault-free bytes until the first refusal; a prefix of them afterwards - for bzip2 under a sink that keeps failing: bzip2.Writer calls wr.Flush once more after a recovered write failure, so a sink that fails only once can receive further bytes in the same call). The oracle sweep (family life) and the call-by-call model correspondence (family lwm: fault at every byte position x hard/short x once/forever x token/Closed-coded error) run on every check.",
    "level_note": "Trusted: Lean kernel; correspondence of the xflate.Writer model incl. ~1.3k fault scenarios per quick run, and of the bzip2.Writer / meta.Writer API models on ~3.8k scenarios per quick run (family lwm + the lw scenarios of family life: per call count, error class, InputOffset, OutputOffset, NumBlocks, and the exact bytes every sink received); the fault model is a sink that fails at a byte position (hard or short write), once or forever, with a token or a Closed-coded error.",
    "explanation": "latch invariant theorems + fault-injection oracle",
}
CHECKS["C18"] = {
    "families": ["life", "xw", "xr", "lwm"],
    "trusted_base": ["API-level models exist for xflate.Writer, xflate.Reader, bzip2.Writer and meta.Writer (the last two tied to /repo by family lwm); for the other four types the lifecycle is decided by the exhaustive call-sequence sweep; guard shapes of all types are regenerated facts"],
    "assumptions": [],
    "level_text": "partial: Lean theorems C18_writer_closed / C18_writer_closed_forever (after a successful Close every Write/Flush is refused with the closed error, Close is idempotent, the state and hence the sink never change again, for every continuation), C18_close_latches, C18_reader_closed (xflate.Reader), C18_bzip2_closed / C18_meta_closed + C18_*_close_closes (API-level models of bzip2.Writer and meta.Writer: Close nil => done with the closed marker; then Write refused with the closed error, Close nil again, state and sink unchanged for every continuation without Reset; the models are total functions, so no call order reaches a panic), C18_guards_in_source (regenerated from /repo). No-panic and closed-means-closed for flate/brotli/bzip2/meta Readers and (as oracle) bzip2/meta Writers: exhaustive depth-3 (quick) / depth-4 (thorough) call sequences under recover.",
    "level_note": "Trusted: Lean kernel; regenerated guard facts; the sweep is sampling for the six unmodelled types.",
    "explanation": "closed-state theorems + exhaustive short call sequences",
}

FLSPEC = "Flate.Spec is my reading of RFC 1951, validated on every run against Go's compress/flate, zlib and this repository's flate.Reader (family fl: verdict, output, consumed bytes)"
BZSPEC = "Bzip2.Spec is my reading of the bzip2 format, validated on every run against libbzip2 (restarted per stream), Go's compress/bzip2 and this repository's Reader (family bz)"

CHECKS["C01"] = {
    "families": ["fl", "win"],
    "trusted_base": [FLSPEC, "Flate.Impl is a hand-written Go-shaped model of flate/reader.go, prefix tables and dict_decoder.go, tied to /repo by per-call correspondence (lines flr, win)"],
    "assumptions": ["the source delivers the bytes it has (failing sources: C09); inputs of the flr correspondence are capped at 6000 bytes, the specification is compared on all"],
    "level_text": "full on the model: Lean theorem C01_refines_spec - for every byte string and every schedule of Read buffer lengths, the Go-shaped model of flate.Reader (tables built by GeneratePrefixes + Decoder.Init, ring-buffer window with lazy growth, resumable steps, toRead/err latch) delivers exactly the output of the RFC 1951 specification, also before an error, ends with io.EOF exactly when the specification accepts (C01_success_iff) and has then consumed exactly the stream; C01_cut, C01_trailing_ignored, C01_output_bound on the specification.",
    "level_note": "Trusted: Lean kernel (propext, Classical.choice, Quot.sound); the RFC reading is mine and is validated against three independent inflaters on ~70k inputs per quick run; the model is tied to /repo by correspondence (sampling). Defect found by this machinery and repaired: D8 (code 16 after a zero run).",
    "explanation": "refinement theorem Impl -> RFC 1951 specification + 4-way differential",
}
CHECKS["C02"] = {
    "families": ["brd", "brr", "win"],
    "trusted_base": ["libbrotlidec (cgo, in-tree internal/cgo/brotli) is the reference of the property itself", "Brotli.Spec is my reading of RFC 7932 (static dictionary taken from /repo on every run), validated on every run against libbrotlidec and brotli.Reader on every input of family brd", "there is no Go-shaped model of brotli.Reader's control flow: 'brotli.Reader = specification' is a correspondence, not a refinement theorem", "Window/Prefix/BitIO models as in C01/C20"],
    "assumptions": ["reject classes on invalid (not merely truncated) streams are not compared: RFC 7932 does not fix which check fires first"],
    "level_text": "partial: a Lean specification of RFC 7932 exists and is compared on every run with brotli.Reader and libbrotlidec (verdict, output length and hash on ~30k inputs per quick run: every <=1-byte string, a stride of the 2-byte strings, libbrotlienc output at qualities 0-11, streams from an independent synthesiser - all WBITS/NPOSTFIX/NDIRECT, one-symbol codes, arbitrary ring-buffer distance codes, several meta-blocks, uncompressed and metadata meta-blocks -, one-command streams for every transform x word length, mutations; reject class on cuts of valid streams; the 121 transforms against Go's transformWord on sampled words of every length). Proved: the components brotli.Reader shares with modelled code - its LZ77 window (C02_window), bit reader over every source shape (C02_bitreader), prefix-table decoder (C02_prefix_decoder) - and sanity theorems pinning the specification (tables, smallest streams, kernel-evaluated examples). NOT proved: that a Go-shaped model of brotli.Reader refines the specification (no such model).",
    "level_note": "Trusted: libbrotlidec; Lean kernel for the component and sanity theorems. This is the weakest claim in the manifest: a change confined to Brotli format logic is caught by the three-way differential, not by a theorem.",
    "explanation": "Lean RFC 7932 specification + component theorems + 3-way differential (dsnet, specification, libbrotlidec)",
}
CHECKS["C03"] = {
    "families": ["bz", "bzr", "bzst", "bzw"],
    "trusted_base": [BZSPEC, "Bzip2.Impl is a hand-written Go-shaped model of bzip2/reader.go and the reading half of bzip2/prefix.go (Read loop, err latch, chunk closure, ReadPrefixCodes with both table paths, Decoder.Init tables, MTF/BWT/RLE1 stages), tied to /repo by per-Read correspondence (family bzr: bytes of every Read, InputOffset and OutputOffset after it, final class, several schedules per input); createTables inside handleDegenerateCodes is represented by the specification's mkCTab (both are line-by-line ports of BZ2_hbCreateDecodeTables)"],
    "assumptions": ["the source delivers the bytes it has and makes every remaining byte available (failing sources: C09; bit reader over every source shape: C10/C11/C20); inputs of the bzr correspondence are capped at 12000 input / 30000 decoded bytes and slow (under-subscribed) trees are sampled in the quick tier, the specification is compared on all"],
    "level_text": "full on the model: Lean theorem C03_refines_spec - for every byte string and every schedule of Read buffer lengths (zeros included) the Go-shaped model of bzip2.Reader delivers a prefix of the format specification's output, returns an error only after all of it, ends with io.EOF exactly when the specification accepts (C03_success_iff), with deprecated exactly when the specification meets a bzip1 header or a randomised block, with unexpected EOF only where the specification runs out of input, and calls corrupted whatever the specification calls corrupt; the one permitted class disagreement (DESIGN.md: an unassigned code word of a damaged prefix code cut short - Go says corrupted, libbzip2-style decoding unexpected EOF) is explicit in the statement. No hypothesis: the decode tables built by GeneratePrefixes + Decoder.Init (Kraft-equal vectors) and by handleDegenerateCodes + Decoder.Init (under-/over-subscribed vectors) are proved to decode every bit string as libbzip2's limit/base/perm tables. C03_sticky_error, C03_schedule_independent, C03_reject_stable (the model is prefix-monotone: a corrupted/deprecated behaviour survives every extension of the input) and C03_cut_model (any cut of an accepted stream, any schedule: only a prefix is delivered and the only errors are unexpected EOF, or io.EOF at the end of one of the concatenated streams - never corrupted or deprecated), plus the specification theorems C03_concatenated, C03_prefix_agrees, C03_bwt_inverse, C03_mtf_roundtrip, C03_rle1_resumable, C03_crc.",
    "level_note": "Trusted: Lean kernel (propext, Classical.choice, Quot.sound); the reading of the format is mine and is validated against libbzip2 (restarted per stream) and compress/bzip2 on every run; the model is tied to /repo by correspondence (sampling). Defect found and repaired: D4 (Reset kept the half-read block).",
    "explanation": "refinement theorem Impl -> bzip2 specification + per-Read correspondence + 3-way differential",
}
CHECKS["C04"] = {
    "families": ["bzw", "bzst"],
    "trusted_base": [BZSPEC, "Bzip2.Writer.encodeStream is a hand-written model of bzip2/writer.go (RLE1 block splitting, tree count, selectors, GenerateLengths limited to 20 bits, delta-coded lengths, CRCs); the forward BWT is the rotation-sort specification, the Go SA-IS is tied to it by the stage correspondence"],
    "assumptions": ["split-independence of the model is by construction (it takes the concatenation); that the Go Writer emits the model's bytes for every split is the bzw correspondence"],
    "level_text": "full on the model: C04_writer_total (no panic branch for any input and level), C04_lossless (the format specification decodes the emitted stream to exactly the input - proved for every input, every level, incl. inputs whose optimal code exceeds 20 bits), C04_codes_fit_20_bits, C04_rle1, C04_bwt_shape, C04_levels. Interoperability with libbzip2 and compress/bzip2 and byte-exact agreement of the Go Writer with the model for random splits: correspondence + oracle (family bzw).",
    "level_note": "Trusted: Lean kernel; libbzip2 and compress/bzip2 as independent decoders in the oracle. Defect found and repaired: D9 (Close forgot an earlier failure).",
    "explanation": "round-trip theorem for the writer model + byte-exact correspondence + 3 decoders",
}
CHECKS["C08"] = {
    "families": ["xo", "brd", "bz", "life"],
    "also_report": [],
    "trusted_base": ["no-panic is decided by running the real code under recover with a watchdog: the models have no slice bounds or nil maps to violate", "allocation ghosts (window allocs, chunk appends) are model fields validated by correspondence (win, xo)"],
    "assumptions": ["work bound per byte: proved as loop-fuel bounds on the models (flate: linear fuel; xflate.Read: one iteration per segment), not measured on the implementation"],
    "level_text": "partial: Lean theorems C08_window_lazy_growth (every window buffer <= max 4096 (min size (4 x produced)) - flate and brotli), C08_index_alloc_bounded (chunk entries appended by xflate.Reader.Reset <= input length; D3 was the declared count), C08_flate_output_bound (<= 258 bytes per input bit), C08_flate_terminates and C08_xflate_read_returns (model loops end within a fuel linear in the input / number of segments; D2 was an endless loop). Panic- and hang-freedom of bzip2.Reader and brotli.Reader and of everything the models do not contain: sweep of mutated/synthesised inputs under recover with a watchdog.",
    "level_note": "Trusted: Lean kernel; the sweep is sampling. Memory of the real process is not measured (no child-process RSS oracle was built).",
    "explanation": "allocation and termination theorems on the models + recover/watchdog sweep",
}
CHECKS["C09"] = {
    "families": ["fl", "bz", "bzr", "life", "xo", "xk", "brr"],
    "trusted_base": [FLSPEC, BZSPEC, "error-site facts are regenerated from /repo by the go/ast extractor and pinned by theorem (Compress.Facts.Sites)"],
    "assumptions": ["I/O errors passed through verbatim: sweep with failing sources (families bio, life), no theorem"],
    "level_text": "partial: C09_error_sites_classified (every error site of /repo on a decoding path raises Corrupted/Deprecated or is a listed exception - regenerated on every run), C09_deflate_cut_is_ueof, C09_bzip2_cut_is_ueof and C09_brotli_cut_is_ueof (a valid stream cut at any byte: exactly unexpected EOF / never corrupt, on the three format specifications), C09_flate_classes (flate.Reader model ends with the class matching the specification), C09_xflate_sticky / C09_xflate_close / C09_xflate_seek_keeps / C09_flate_sticky (latched error: no data, same error, Close reports it). bzip2.Reader model: C03_sticky_error and the class clauses of C03_refines_spec (family bzr). Close for bzip2 and sticky + Close for brotli/meta Readers and verbatim I/O errors: sweep (call sequences, truncation at every byte through 11 source kinds, injected source errors at every position incl. a source that fails instead of reporting io.EOF, xflate streams with a damaged chunk).",
    "level_note": "Trusted: Lean kernel; extractor (go/ast) for the facts; sweep = sampling.",
    "explanation": "regenerated error-site facts + cut theorems + sticky lemmas + fault sweep",
}
CHECKS["C10"] = {
    "families": ["bio", "fl", "brd", "brr", "bz", "bzr", "meta", "life"],
    "trusted_base": ["bit reader model (both source modes, adversarial Buffered()) tied to /repo by scripted correspondence (family bio)"],
    "assumptions": ["Buffered() answers are stable between Peek/Discard/Read (a source that shrinks them is outside the BufferedReader contract)"],
    "level_text": "partial: C10_flate_read_sizes (any two Read schedules, zeros included: same bytes, same final error), C10_source_shape (ReadByte-only vs Peek/Discard with any Buffered() adversary: same fields = the plain bit list), C10_bzip2_read_sizes (resumable RLE1 for every schedule), C10_xflate_any_fragmentation (C07 for every inflater behaviour). bzip2.Reader model: C03_schedule_independent (any two schedules, zeros included; family bzr). Whole-reader independence over source shapes for bzip2, and for brotli, flate and meta: sweep over 11 source kinds (with and without bytes after the stream) and Read-size schedules with zero-length buffers.",
    "level_note": "Trusted: Lean kernel; correspondence of the bit reader scripts; sweep = sampling.",
    "explanation": "schedule-independence theorems + source-shape sweep",
}
CHECKS["C11"] = {
    "families": ["bio", "fl", "brd", "meta", "bz", "bzr"],
    "trusted_base": ["bit reader and decode-table models tied to /repo by correspondence (bio, pfx)"],
    "assumptions": ["'flate.Reader delivers everything written before a flush without asking for more input' is decided by the fl sweep (flush-point oracle), not proved"],
    "level_text": "partial: C11_counters_exact and C11_exact_consumption (bit reader, both source kinds, any Buffered() adversary: BitsRead exact, byte offset = bytes taken, after ReadPads+Flush exactly the bytes holding the stream are gone), C11_readSymbol_no_overread (the table-lookup length suggestion never exceeds the true code length for canonical complete codes - so a ReadByte-only source is never over-read), C11_flate_input_offset (flate model: consumed = stream length at io.EOF for every schedule), C11_bzip2_counters (bzip2.Reader model, every schedule: OutputOffset after each Read = bytes delivered so far; InputOffset at io.EOF = length of the input; both counters are compared with the real Reader after every Read by family bzr). OutputOffset/InputOffset of the real Readers and the trailer-left-unread check: sweep (fl, brd, meta).",
    "level_note": "Trusted: Lean kernel; sweep = sampling.",
    "explanation": "exact-consumption theorems for the shared bit reader + trailer sweep",
}
CHECKS["C12"] = {
    "families": ["xw", "life", "bzw"],
    "trusted_base": [ZW.replace("between Reset and Flush", "between Reset and any later Flush (every flush-delimited prefix of a chunk)"), FLSPEC, BZSPEC],
    "assumptions": ["compressor contract per flush-delimited prefix of a chunk (non-vacuous: witness with a back-reference across a sync flush)"],
    "level_text": "partial (one clause is false of the code: D6, known finding): C12_flush_durable (after any Flush that returned nil the specification decodes the sink bytes to exactly everything accepted before it, then runs out of input), C12_xflate_cut_deflate (closed XFLATE output cut at any byte: prefix then unexpected EOF), C12_bzip2_cut (same for bzip2.Writer output). 'xflate.NewReader on a cut stream fails or serves exactly the original': sweep over every/sampled cut position; fails in the D6 shape only.",
    "level_note": "Trusted: Lean kernel; compress/flate.Writer is a contract. KNOWN-FINDING D6 is matched by its shape (wrong tail = the end-block bytes, then an error).",
    "explanation": "durability and cut theorems + cut sweep",
}
CHECKS["C14"] = {
    "families": ["life", "win", "cc", "fl", "lwm"],
    "trusted_base": ["Reset field lists are regenerated from /repo (go/ast) and pinned by theorem", "behavioural equality after Reset is a theorem for the flate.Reader model only (tied to /repo by the flrr correspondence lines: real Reader, earlier stream partly read, Reset, schedule of Reads, against the model doing the same); for the other types it is a sweep (dirty history, Reset, compare with a fresh instance)"],
    "assumptions": [],
    "level_text": "partial: full for flate.Reader on the Go-shaped model - C14_flate_reset_fresh / C14_flate_reset_eq_new: from ANY earlier state of the reader (stream finished, abandoned with pending output or a copy in progress, failed; any window capacity and any stale window contents, which Reset keeps) Reset onto a new byte string gives, for every Read schedule, exactly the RFC 1951 specification's output and error for that string alone, i.e. what a new reader gives. Full also for bzip2.Writer and meta.Writer on their API-level models - C14_bzip2_writer_reset / C14_bzip2_writer_reset_new / C14_meta_writer_reset: after Reset the whole state equals that of a fresh writer on the new sink, whatever the history (tied to /repo by family lwm, whose scenarios Reset after success and after failure onto fresh and failing sinks). Further: C14_window_fresh (the reused LZ77 window - the one carried buffer whose contents could matter - does not influence the next stream, for every previous capacity), C14_bitreader_fresh, C14_bzip2_reader_reset + Facts.reset_carried (every Reset of /repo carries allocation-bearing and configuration fields only; regenerated on every run - D4 was bzip2.Reader carrying its half-read block). Whole-instance indistinguishability for the other 5 types: sweep (read to end / abandoned / corrupt / closed / failed sink, then Reset, against a fresh instance).",
    "level_note": "Trusted: Lean kernel; extractor; sweep = sampling.",
    "explanation": "regenerated Reset facts + window freshness theorem + dirty-history sweep",
}
CHECKS["C15"] = {
    "families": ["xo"],
    "trusted_base": [FLSPEC, "Open and Reader models run over the specification as the inflater (kind xa) and are compared with the real NewReader + ReadAll on every accepted stream of <= 700 bytes"],
    "assumptions": ["hypothesis NoFinalBlock on non-footer segments (see level)"],
    "level_text": "partial - the full property is FALSE of the code (D10, known finding, kernel-checked 53-byte witness C15_violated_D10): C15_accepted_is_deflate proves it for every accepted byte string none of whose non-footer segments holds a final-block header (NoFinalBlock, stated on the specification alone), C15_writer_streams_qualify shows every Writer-produced stream meets that hypothesis, C15_index_agrees / C15_index_agrees_read, C15_history_independent. The sweep crafts chunks from DEFLATE fragments the Writer never emits and tampers with indexes and footers; a violation whose offending chunk holds a final-block header is the known finding, anything else is reported.",
    "level_note": "Trusted: Lean kernel; compress/flate in the sweep. D10 is not repaired: telling the appended end block from a final block inside a chunk needs block boundaries compress/flate does not expose.",
    "explanation": "accepted => DEFLATE theorem under NoFinalBlock + crafted-stream sweep",
}
CHECKS["C17"] = {
    "families": ["xc", "xr"],
    "trusted_base": [ZR, INT64, "fetch accounting: bytes reach the inflater only through io.LimitedReader{N: csize} over the segment Seek positioned on (source fact, observed by the logging ReadSeeker of family xc)"],
    "assumptions": ["bufio read-ahead inside the wrapper is bounded by the LimitedReader"],
    "level_text": "full on the model: C17_seek_opens_owner (a successful Seek(p) opens at most one segment and it is the chunk holding p, half-open - wherever the cursor was), C17_read_opens_between (a Read delivering k bytes opens only later segments, each once, each starting in [p, p+k]), C17_access_cost, C17_tail_costs_nothing, C17_open_cost (open reads the footer window and exactly the index blocks), with the cost-instrumented functions proved to project onto the validated Reader model. D7 (closed shortcut test: one extra chunk) is repaired in /repo and kept as a machine-checked counter-example on the pre-fix model.",
    "level_note": "Trusted: Lean kernel; correspondence of the opened-segment lists per operation against the absolute seeks the real Reader issues (family xc), plus the per-segment fetch bound and ownership oracle on the real code.",
    "explanation": "opened-segment theorems + seek-log correspondence",
}
CHECKS["C19"] = {
    "families": ["cc"],
    "trusted_base": ["global-variable facts regenerated from /repo (go/ast): written only in init functions; addresses taken only at read-only table uses", "Go race detector (binary built with -race) for what a sequential model cannot exhibit"],
    "assumptions": ["a method touches only its receiver's state and reads package state: follows from the regenerated facts for direct assignments; aliasing through pointers handed out by the instances themselves is covered by the race-detector sweep only"],
    "level_text": "partial: interleaving_is_solo / others_irrelevant (for steps that read a shared environment and read/write only their own instance, every interleaving gives each instance exactly the results and final state of running alone - any number of instances, any schedule), C19_no_shared_write (the premise, regenerated from /repo on every run) together with Facts.address_taken_expected (every place where a package-level variable has its address taken, is sliced, is the receiver of a method call or is used as a bare value is pinned: a new shared table, pool or scratch buffer changes the list). Absence of unsynchronised access in the real code: 16-32 goroutines x independent instances of all Reader/Writer types under the race detector, results compared with solo runs.",
    "level_note": "Trusted: Lean kernel; extractor; race detector = sampling of schedules.",
    "explanation": "frame theorem + regenerated no-shared-write facts + race-detector sweep",
}

NOT_APPLICABLE = {}
