"""Per-property configuration of bin/check: which Lean module holds the property
theorems, which harness families give the correspondence and the oracle sweep."""

ZR = "contract ZRSpec: Go's standard-library compress/flate inflater behind xflate's chunkReader is summarised per segment (bytes delivered, how it stops, input consumed, last four bytes); measured from the real library on every run, not verified"
INT64 = "int64 offsets are modelled as unbounded Int; generated offsets stay below 2^62 so no Go addition wraps"

CHECKS = {
    "C07": {
        "families": ["xr"],
        "trusted_base": [ZR, INT64, "the underlying io.ReadSeeker is exact (failing sources belong to C09)"],
        "assumptions": [ZR, INT64],
        "explanation": "simulation theorem: every Seek/Read sequence on the xflate.Reader model returns what a ReadSeeker over the plaintext returns, for every well-formed layout and every adversarial choice of inflater read sizes",
    },
}
