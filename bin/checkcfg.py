"""Per-property configuration of bin/check: which Lean module holds the property
theorems, which harness families give the correspondence and the oracle sweep."""

ZR = "contract ZRSpec: Go's standard-library compress/flate inflater behind xflate's chunkReader is summarised per segment (bytes delivered, how it stops, input consumed, last four bytes); measured from the real library on every run, not verified"
INT64 = "int64 offsets are modelled as unbounded Int; generated offsets stay below 2^62 so no Go addition wraps"

CHECKS = {
    "C07": {
        "families": ["xr"],
        "trusted_base": [ZR, INT64, "the underlying io.ReadSeeker is exact (failing sources belong to C09)"],
        "assumptions": [ZR, INT64],
        "level_text": "full: Lean theorem C07_readseeker — for every well-formed layout (any chunks, empty chunks, several indexes), every sequence of Seek (any offset/whence incl. invalid) and Read (any buffer length incl. 0) and every legal behaviour of the inflater, the trace of the xflate.Reader model is a trace of a ReadSeeker over the plaintext; Read always returns (loop bound proved); index.Search proved equal to its specification. The two defects this exposed (D1, D2) are repaired in /repo and kept as machine-checked counter-examples on the pre-fix model.",
        "level_note": "Trusted: Lean kernel (axioms propext, Classical.choice, Quot.sound only); the model of Reader.Read/Seek/Close is hand-written and tied to /repo by a call-by-call correspondence run (48k op sequences per quick run, incl. state hook offset) — sampling, not proof; the standard-library inflater is a contract (ZRSpec) measured on every run; int64 wrap-around and failing ReadSeekers are outside this theorem.",
        "explanation": "simulation theorem: every Seek/Read sequence on the xflate.Reader model returns what a ReadSeeker over the plaintext returns, for every well-formed layout and every adversarial choice of inflater read sizes",
    },
}

CHECKS["C16"] = {
    "families": ["meta"],
    "trusted_base": ["the bit-level model of encodeBlock/decodeBlock/Writer.Write buffering/ReverseSearch is hand-written; the 64-bit buffer and staging of prefix.Reader/Writer underneath are not represented here (C20 covers them)"],
    "assumptions": ["bit I/O of internal/prefix delivers the bit list it was given (C20)"],
    "level_text": "full except the converse direction: Lean theorems C16_block_roundtrip and C16_stream_roundtrip (decode (encode p m) = p, m, block count, every byte consumed, for every payload length and mode; split-independent because the model's Write is a byte fold), C16_write_total, C16_fit22 (<= 22 bytes => one block), C16_block_aligned, C16_block_size (12..64 bytes), C16_magic_only_at_start + C16_reverseSearch_spec + C16_reverseSearch_finds_last_block (signature at block starts only, so the backward search finds the last block), C16_silent_in_deflate (to the RFC 1951 specification every meta block is a complete empty dynamic block, final iff FinalStream). Not proved: the converse (whatever the meta decoder accepts is such a block sequence) - decided by the oracle sweep on mutated inputs only.",
    "level_note": "Trusted: Lean kernel (propext, Classical.choice, Quot.sound); hand-written model tied to /repo by byte-exact correspondence of encoder output, decoder verdicts and ReverseSearch on ~46k cases per quick run (all payloads <= 1 byte x 3 modes, footers, random payloads, mutations); compress/flate is the reference for the DEFLATE-silence oracle.",
    "explanation": "round-trip theorems for the meta codec model; remaining clauses checked on the implementation by the oracle",
}

CHECKS["C20"] = {
    "families": ["pfx", "bio"],
    "trusted_base": ["hand-written models of GenerateLengths/GeneratePrefixes/Decoder.Init/Encoder.Init/RangeEncoder and of prefix.Reader/Writer (64-bit buffer incl. look-ahead bits, both source modes, staging buffer)",
                     "sort.Sort is not modelled: GenerateLengths' precondition (counts ascending) is taken as given"],
    "assumptions": ["uint32 counts/symbols are modelled as Nat (no overflow below 2^32 in the generated profiles)"],
    "level_text": "full for code construction: Lean theorems C20_lengths_total (GenerateLengths returns for every ascending count table and every limit that can hold the alphabet: treeRotate never underflows), C20_lengths_complete (Kraft equality and limit, incl. the length-limited branch that bzip2 hits at 20 bits), C20_lengths_monotone, C20_prefixes_ok_iff / C20_prefixes_sound (GeneratePrefixes accepts exactly the complete vectors; result prefix-free and canonical), C20_decoder_correct (two-level table = code search, incl. link tables), C20_encoder_correct (terminates, maps each symbol to its code), C20_range_correct. Bit I/O round trip (H4) over the 64-bit buffer models: statement written, proof in progress; until it lands that clause is decided by the correspondence/oracle sweep (write-then-read over 4 source kinds, source-shape independence over 9 kinds).",
    "level_note": "Trusted: Lean kernel (propext, Classical.choice, Quot.sound); models tied to /repo by exact correspondence (results of GenerateLengths/GeneratePrefixes, decode and encode tables as functions, every value/offset/error of bit reader and writer scripts over scripted sources). Defect found and repaired in /repo: prefix.Reader.Read left look-ahead bits behind (D5).",
    "explanation": "code construction theorems + bit I/O correspondence",
}

NOT_APPLICABLE = {}
