"""Per-property configuration of bin/check: which Lean module holds the property
theorems, which harness families give the correspondence and the oracle sweep."""

ZR = "contract ZRSpec: Go's standard-library compress/flate inflater behind xflate's chunkReader is summarised per segment (bytes delivered, how it stops, input consumed, last four bytes); measured from the real library on every run, not verified"
INT64 = "int64 offsets are modelled as unbounded Int; generated offsets stay below 2^62 so no Go addition wraps"

CHECKS = {
    "C07": {
        "families": ["xr"],
        "trusted_base": [ZR, INT64, "the underlying io.ReadSeeker is exact (failing sources belong to C09)"],
        "assumptions": [ZR, INT64],
        "level_text": "full: Lean theorem C07_readseeker — for every well-formed layout (any chunks, empty chunks, several indexes), every sequence of Seek (any offset/whence incl. invalid) and Read (any buffer length incl. 0) and every legal behaviour of the inflater, the trace of the xflate.Reader model is a trace of a ReadSeeker over the plaintext; Read always returns (loop bound proved); index.Search proved equal to its specification. The two defects this exposed (D1, D2) are repaired in /repo and kept as machine-checked counter-examples on the pre-fix model.",
        "level_note": "Trusted: Lean kernel (axioms propext, Classical.choice, Quot.sound only); the model of Reader.Read/Seek/Close is hand-written and tied to /repo by a call-by-call correspondence run (48k op sequences per quick run, incl. state hook offset) — sampling, not proof; the standard-library inflater is a contract (ZRSpec) measured on every run; int64 wrap-around and failing ReadSeekers are outside this theorem.",
        "explanation": "simulation theorem: every Seek/Read sequence on the xflate.Reader model returns what a ReadSeeker over the plaintext returns, for every well-formed layout and every adversarial choice of inflater read sizes",
    },
}

NOT_APPLICABLE = {}
