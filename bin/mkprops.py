#!/usr/bin/env python3
"""Emit a property theorem that restates a proved lemma: the statement is copied
verbatim from the proof file (so it is visible in Props/) and the proof is the
lemma applied to the binders.  usage: mkprops.py <ProofFile.lean> <lemma> <NewName> [doc]"""
import re, sys

def extract(path, name):
    src = open(path).read()
    m = re.search(r'^theorem\s+' + re.escape(name) + r'(?![\w\'])', src, re.M)
    if not m:
        raise SystemExit("no theorem %s in %s" % (name, path))
    i = m.end()
    depth = 0
    colon = None
    j = i
    while j < len(src):
        c = src[j]
        if c in '([{⟨': depth += 1
        elif c in ')]}⟩': depth -= 1
        elif depth == 0 and c == ':' and src[j:j+2] != ':=' and colon is None:
            colon = j
        elif depth == 0 and src[j:j+2] == ':=' and colon is not None:
            line = src[src.rfind('\n', 0, j)+1:j]
            if re.search(r'\blet\s+[^:=]+(:[^=]*)?$', line):
                j += 2
                continue
            break
        j += 1
    binders = src[i:colon].strip()
    typ = src[colon+1:j].rstrip()
    # explicit binder names
    names = []
    d = 0; k = 0
    while k < len(binders):
        c = binders[k]
        if c in '({[':
            close = {'(': ')', '{': '}', '[': ']'}[c]
            dd = 0; e = k
            while True:
                if binders[e] in '([{⟨': dd += 1
                elif binders[e] in ')]}⟩':
                    dd -= 1
                    if dd == 0: break
                e += 1
            grp = binders[k+1:e]
            if c == '(':
                # names before the top-level ':'
                dd = 0
                for q, ch in enumerate(grp):
                    if ch in '([{⟨': dd += 1
                    elif ch in ')]}⟩': dd -= 1
                    elif ch == ':' and dd == 0:
                        names += grp[:q].split(); break
            k = e + 1
        else:
            k += 1
    return binders, typ, names

if __name__ == '__main__':
    path, name, new = sys.argv[1:4]
    doc = sys.argv[4] if len(sys.argv) > 4 else None
    src = open(path).read()
    mod = re.search(r'^namespace\s+(\S+)', src, re.M).group(1)
    opens = " ".join(x.strip() for x in re.findall(r'^open\s+([^\n]*?)(?:\s+in)?$', src, re.M) if ' in ' not in x and '(' not in x)
    b, t, n = extract(path, name)
    print("open %s %s in" % (mod, opens))
    if doc:
        print("/-- %s -/" % doc)
    print("theorem %s %s :%s :=\n  %s.%s %s\n" % (new, b, t, mod, name, " ".join(n)))
