module verif/extract

go 1.21
