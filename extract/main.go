// Command extract regenerates Lean facts from the working tree of /repo:
// named integer constants, integer literal tables, error sites with their class,
// the fields every Reset carries over, entry guards of exported methods, and
// package-level variables with their write sites. It uses go/parser and go/ast
// only (no type checking of dependencies is needed for these syntactic facts;
// constant expressions are evaluated by a small folder over go/constant).
package main

import (
	"flag"
	"fmt"
	"go/ast"
	"go/constant"
	"go/parser"
	"go/token"
	"os"
	"path/filepath"
	"sort"
	"strings"
)

type pkgInfo struct {
	name  string
	dir   string
	files []*ast.File
	fset  *token.FileSet
	// constant environment
	consts map[string]constant.Value
}

var pkgs = []struct{ name, dir string }{
	{"flate", "flate"}, {"brotli", "brotli"}, {"bzip2", "bzip2"}, {"xflate", "xflate"},
	{"meta", "xflate/internal/meta"}, {"prefix", "internal/prefix"}, {"internal", "internal"},
	{"errors", "internal/errors"},
}

func load(repo string) map[string]*pkgInfo {
	out := map[string]*pkgInfo{}
	for _, p := range pkgs {
		fset := token.NewFileSet()
		dir := filepath.Join(repo, p.dir)
		ents, err := os.ReadDir(dir)
		if err != nil {
			fatal(err)
		}
		pi := &pkgInfo{name: p.name, dir: p.dir, fset: fset, consts: map[string]constant.Value{}}
		for _, e := range ents {
			n := e.Name()
			if !strings.HasSuffix(n, ".go") || strings.HasSuffix(n, "_test.go") {
				continue
			}
			// default build: skip debug / gofuzz / verif variants
			src, _ := os.ReadFile(filepath.Join(dir, n))
			head := string(src)
			if i := strings.Index(head, "package "); i > 0 {
				head = head[:i]
			}
			if strings.Contains(head, "go:build") && (strings.Contains(head, "build debug") || strings.Contains(head, "build gofuzz") || strings.Contains(head, "build verif") || strings.Contains(head, "build cgo")) {
				continue
			}
			f, err := parser.ParseFile(fset, filepath.Join(dir, n), src, parser.ParseComments)
			if err != nil {
				fatal(err)
			}
			pi.files = append(pi.files, f)
		}
		out[p.name] = pi
	}
	return out
}

func fatal(err error) { fmt.Fprintln(os.Stderr, "extract:", err); os.Exit(1) }

// eval folds an integer constant expression using the package's constant table.
func (p *pkgInfo) eval(e ast.Expr, iota int, all map[string]*pkgInfo) (constant.Value, bool) {
	switch x := e.(type) {
	case *ast.BasicLit:
		if x.Kind == token.INT || x.Kind == token.CHAR {
			return constant.MakeFromLiteral(x.Value, x.Kind, 0), true
		}
	case *ast.Ident:
		if x.Name == "iota" && iota >= 0 {
			return constant.MakeInt64(int64(iota)), true
		}
		if v, ok := p.consts[x.Name]; ok {
			return v, true
		}
	case *ast.SelectorExpr:
		if id, ok := x.X.(*ast.Ident); ok {
			if q, ok := all[id.Name]; ok {
				if v, ok := q.consts[x.Sel.Name]; ok {
					return v, true
				}
			}
		}
	case *ast.ParenExpr:
		return p.eval(x.X, iota, all)
	case *ast.CallExpr: // conversions like uint32(x), byte(x)
		if len(x.Args) == 1 {
			if id, ok := x.Fun.(*ast.Ident); ok {
				switch id.Name {
				case "int", "uint", "uint8", "uint16", "uint32", "uint64", "int32", "int64", "byte", "FinalMode", "FlushMode":
					return p.eval(x.Args[0], iota, all)
				}
			}
		}
	case *ast.UnaryExpr:
		if v, ok := p.eval(x.X, iota, all); ok && v.Kind() == constant.Int {
			return constant.UnaryOp(x.Op, v, 0), true
		}
	case *ast.BinaryExpr:
		a, ok1 := p.eval(x.X, iota, all)
		b, ok2 := p.eval(x.Y, iota, all)
		if ok1 && ok2 && a.Kind() == constant.Int && b.Kind() == constant.Int {
			switch x.Op {
			case token.SHL, token.SHR:
				s, _ := constant.Uint64Val(b)
				return constant.Shift(a, x.Op, uint(s)), true
			case token.QUO:
				if constant.Sign(b) == 0 {
					return nil, false
				}
				return constant.BinaryOp(a, token.QUO_ASSIGN, b), true
			default:
				return constant.BinaryOp(a, x.Op, b), true
			}
		}
	}
	return nil, false
}

func (p *pkgInfo) collectConsts(all map[string]*pkgInfo) {
	for pass := 0; pass < 3; pass++ {
		for _, f := range p.files {
			for _, d := range f.Decls {
				gd, ok := d.(*ast.GenDecl)
				if !ok || gd.Tok != token.CONST {
					continue
				}
				var last []ast.Expr
				for i, s := range gd.Specs {
					vs := s.(*ast.ValueSpec)
					vals := vs.Values
					if len(vals) == 0 {
						vals = last
					} else {
						last = vals
					}
					for j, n := range vs.Names {
						if j < len(vals) {
							if v, ok := p.eval(vals[j], i, all); ok && v.Kind() == constant.Int {
								p.consts[n.Name] = v
							}
						}
					}
				}
			}
		}
	}
}

func leanName(s string) string { return strings.ReplaceAll(s, ".", "_") }

// intList flattens the integer elements of a composite literal (one level of nesting allowed).
func (p *pkgInfo) intList(e ast.Expr, all map[string]*pkgInfo) ([]string, bool) {
	cl, ok := e.(*ast.CompositeLit)
	if !ok {
		return nil, false
	}
	var out []string
	for _, el := range cl.Elts {
		if kv, ok := el.(*ast.KeyValueExpr); ok {
			el = kv.Value
		}
		if v, ok := p.eval(el, -1, all); ok && v.Kind() == constant.Int {
			out = append(out, v.ExactString())
		} else {
			return nil, false
		}
	}
	return out, true
}

func main() {
	repo := flag.String("repo", "/repo", "repository root")
	outDir := flag.String("out", "", "output directory for Generated/*.lean")
	flag.Parse()
	if *outDir == "" {
		fatal(fmt.Errorf("-out required"))
	}
	all := load(*repo)
	for i := 0; i < 2; i++ {
		for _, p := range pkgs {
			all[p.name].collectConsts(all)
		}
	}
	os.MkdirAll(*outDir, 0o755)

	// ---------- Consts.lean
	var b strings.Builder
	b.WriteString("/- GENERATED by /verif/extract from /repo's working tree. Do not edit. -/\nnamespace Compress.Generated\n\n")
	for _, p := range pkgs {
		pi := all[p.name]
		var names []string
		for n := range pi.consts {
			names = append(names, n)
		}
		sort.Strings(names)
		for _, n := range names {
			fmt.Fprintf(&b, "def %s_%s : Int := %s\n", p.name, n, parenNeg(pi.consts[n].ExactString()))
		}
		b.WriteString("\n")
	}
	// ---------- integer literal tables: package-level vars, and the []uint argument of MakeRangeCodes
	for _, p := range pkgs {
		pi := all[p.name]
		for _, f := range pi.files {
			for _, d := range f.Decls {
				gd, ok := d.(*ast.GenDecl)
				if !ok || gd.Tok != token.VAR {
					continue
				}
				for _, s := range gd.Specs {
					vs := s.(*ast.ValueSpec)
					for j, n := range vs.Names {
						if j >= len(vs.Values) {
							continue
						}
						if l, ok := pi.intList(vs.Values[j], all); ok {
							if len(l) > 3000 {
								// too large to be a Lean literal: length and FNV-1a hash of the decimal strings
								h := uint64(14695981039346656037)
								for _, e := range l {
									for _, c := range []byte(e + ",") {
										h = (h ^ uint64(c)) * 1099511628211
									}
								}
								fmt.Fprintf(&b, "def %s_%s_len : Int := %d\ndef %s_%s_fnv : Int := %d\n", p.name, n.Name, len(l), p.name, n.Name, h)
								continue
							}
							fmt.Fprintf(&b, "def %s_%s : List Int := [%s]\n", p.name, n.Name, strings.Join(mapNeg(l), ", "))
							continue
						}
						// func() X { return append(MakeRangeCodes(base, []uint{...}), ...) }()
						ast.Inspect(vs.Values[j], func(nd ast.Node) bool {
							ce, ok := nd.(*ast.CallExpr)
							if !ok {
								return true
							}
							if sel, ok := ce.Fun.(*ast.SelectorExpr); ok && sel.Sel.Name == "MakeRangeCodes" && len(ce.Args) == 2 {
								if base, ok := pi.eval(ce.Args[0], -1, all); ok {
									if l, ok := pi.intList(ce.Args[1], all); ok {
										fmt.Fprintf(&b, "def %s_%s_base : Int := %s\n", p.name, n.Name, base.ExactString())
										fmt.Fprintf(&b, "def %s_%s_bits : List Int := [%s]\n", p.name, n.Name, strings.Join(l, ", "))
									}
								}
							}
							return true
						})
					}
				}
			}
		}
	}
	b.WriteString("\nend Compress.Generated\n")
	write(*outDir, "Consts.lean", b.String())

	// ---------- Sites.lean: error sites, Reset carried fields, guards, globals
	var s strings.Builder
	s.WriteString("/- GENERATED by /verif/extract from /repo's working tree. Do not edit. -/\nnamespace Compress.Generated\n\n")
	s.WriteString("structure ErrSite where\n  pkg : String\n  file : String\n  func : String\n  code : String\n  via : String\nderiving Repr, DecidableEq\n\n")
	s.WriteString("structure ResetFact where\n  pkg : String\n  recv : String\n  carried : List String\n  calls : List String\nderiving Repr, DecidableEq\n\n")
	s.WriteString("structure GuardFact where\n  pkg : String\n  recv : String\n  method : String\n  guarded : Bool\n  sentinels : List String\nderiving Repr, DecidableEq\n\n")
	s.WriteString("structure GlobalFact where\n  pkg : String\n  name : String\n  writtenIn : List String\n  addrTakenIn : List String\nderiving Repr, DecidableEq\n\n")
	var errSites, resets, guards, globals []string
	for _, p := range pkgs {
		pi := all[p.name]
		// package-level var names
		glob := map[string]bool{}
		for _, f := range pi.files {
			for _, d := range f.Decls {
				if gd, ok := d.(*ast.GenDecl); ok && gd.Tok == token.VAR {
					for _, sp := range gd.Specs {
						for _, n := range sp.(*ast.ValueSpec).Names {
							if n.Name != "_" {
								glob[n.Name] = true
							}
						}
					}
				}
			}
		}
		writes := map[string]map[string]bool{}
		addrs := map[string]map[string]bool{}
		for _, f := range pi.files {
			fname := filepath.Base(pi.fset.Position(f.Pos()).Filename)
			for _, d := range f.Decls {
				fd, ok := d.(*ast.FuncDecl)
				if !ok || fd.Body == nil {
					continue
				}
				recv := ""
				if fd.Recv != nil && len(fd.Recv.List) > 0 {
					recv = typeName(fd.Recv.List[0].Type)
				}
				fn := fd.Name.Name
				if recv != "" {
					fn = recv + "." + fn
				}
				// locals shadowing globals
				local := map[string]bool{}
				if fd.Type.Params != nil {
					for _, fl := range fd.Type.Params.List {
						for _, n := range fl.Names {
							local[n.Name] = true
						}
					}
				}
				// bare uses: a package-level variable used as a value (assigned to a field or local,
				// passed as an argument, returned) rather than indexed, sliced, ranged over, measured
				// or used as a method receiver; for slice, map and pointer variables this aliases shared
				// memory into an instance
				var stack []ast.Node
				ast.Inspect(fd.Body, func(nd ast.Node) bool {
					if nd == nil {
						stack = stack[:len(stack)-1]
						return true
					}
					if id, ok := nd.(*ast.Ident); ok && glob[id.Name] && !local[id.Name] && len(stack) > 0 {
						bare := true
						switch par := stack[len(stack)-1].(type) {
						case *ast.IndexExpr:
							bare = par.X != ast.Expr(id)
						case *ast.SliceExpr:
							bare = par.X != ast.Expr(id)
						case *ast.SelectorExpr:
							bare = false
						case *ast.RangeStmt:
							bare = par.X != ast.Expr(id)
						case *ast.UnaryExpr:
							bare = par.Op != token.AND
						case *ast.CallExpr:
							if fn2, ok := par.Fun.(*ast.Ident); ok && (fn2.Name == "len" || fn2.Name == "cap") {
								bare = false
							}
							if par.Fun == ast.Expr(id) {
								bare = false
							}
						case *ast.AssignStmt:
							for _, l := range par.Lhs {
								if l == ast.Expr(id) {
									bare = false // a write, recorded below
								}
							}
						case *ast.KeyValueExpr:
							bare = par.Key != ast.Expr(id)
						}
						if bare {
							if addrs[id.Name] == nil {
								addrs[id.Name] = map[string]bool{}
							}
							addrs[id.Name][fn+"="] = true
						}
					}
					stack = append(stack, nd)
					return true
				})
				ast.Inspect(fd.Body, func(nd ast.Node) bool {
					switch x := nd.(type) {
					case *ast.AssignStmt:
						for _, l := range x.Lhs {
							if x.Tok == token.DEFINE {
								if id, ok := l.(*ast.Ident); ok {
									local[id.Name] = true
								}
								continue
							}
							if id := rootIdent(l); id != nil && glob[id.Name] && !local[id.Name] {
								if writes[id.Name] == nil {
									writes[id.Name] = map[string]bool{}
								}
								writes[id.Name][fn] = true
							}
						}
					case *ast.IncDecStmt:
						if id := rootIdent(x.X); id != nil && glob[id.Name] && !local[id.Name] {
							if writes[id.Name] == nil {
								writes[id.Name] = map[string]bool{}
							}
							writes[id.Name][fn] = true
						}
					case *ast.UnaryExpr:
						if x.Op == token.AND {
							if id := rootIdent(x.X); id != nil && glob[id.Name] && !local[id.Name] {
								if addrs[id.Name] == nil {
									addrs[id.Name] = map[string]bool{}
								}
								addrs[id.Name][fn] = true
							}
						}
					case *ast.SliceExpr:
						// slicing a package-level array or slice aliases its backing store
						if id := rootIdent(x.X); id != nil && glob[id.Name] && !local[id.Name] {
							if addrs[id.Name] == nil {
								addrs[id.Name] = map[string]bool{}
							}
							addrs[id.Name][fn+"[:]"] = true
						}
					case *ast.CallExpr:
						// a method called on a package-level variable may mutate it (pointer receivers)
						if sel, ok := x.Fun.(*ast.SelectorExpr); ok {
							if id := rootIdent(sel.X); id != nil && glob[id.Name] && !local[id.Name] {
								if addrs[id.Name] == nil {
									addrs[id.Name] = map[string]bool{}
								}
								addrs[id.Name][fn+"."+sel.Sel.Name+"()"] = true
							}
						}
						name := callName(x.Fun)
						if name == "errorf" || name == "panicf" {
							if len(x.Args) > 0 {
								errSites = append(errSites, fmt.Sprintf("  ⟨%q, %q, %q, %q, %q⟩", p.name, fname, fn, exprStr(x.Args[0]), name))
							}
						}
					case *ast.CompositeLit:
						if t := exprStr(x.Type); t == "errors.Error" || t == "Error" {
							for _, el := range x.Elts {
								if kv, ok := el.(*ast.KeyValueExpr); ok && exprStr(kv.Key) == "Code" {
									errSites = append(errSites, fmt.Sprintf("  ⟨%q, %q, %q, %q, %q⟩", p.name, fname, fn, exprStr(kv.Value), "literal"))
								}
							}
						}
					}
					return true
				})
				// Reset facts
				if recv != "" && (fd.Name.Name == "Reset" || fd.Name.Name == "Init") {
					var carried, calls []string
					for _, st := range fd.Body.List {
						if as, ok := st.(*ast.AssignStmt); ok && len(as.Lhs) == 1 {
							if star, ok := as.Lhs[0].(*ast.StarExpr); ok && len(as.Rhs) == 1 {
								_ = star
								if cl, ok := as.Rhs[0].(*ast.CompositeLit); ok {
									for _, el := range cl.Elts {
										if kv, ok := el.(*ast.KeyValueExpr); ok {
											carried = append(carried, exprStr(kv.Key)+"="+exprStr(kv.Value))
										}
									}
								}
							}
						}
						if es, ok := st.(*ast.ExprStmt); ok {
							if ce, ok := es.X.(*ast.CallExpr); ok {
								calls = append(calls, exprStr(ce.Fun))
							}
						}
					}
					resets = append(resets, fmt.Sprintf("  ⟨%q, %q, %s, %s⟩", p.name, recv+"."+fd.Name.Name, leanStrList(carried), leanStrList(calls)))
				}
				// guard facts for exported methods
				if recv != "" && ast.IsExported(fd.Name.Name) && ast.IsExported(strings.TrimPrefix(recv, "*")) {
					guarded := false
					var sent []string
					if len(fd.Body.List) > 0 {
						if is, ok := fd.Body.List[0].(*ast.IfStmt); ok {
							c := exprStr(is.Cond)
							if strings.Contains(c, ".err") || strings.Contains(c, ".done") {
								guarded = true
							}
						}
					}
					ast.Inspect(fd.Body, func(nd ast.Node) bool {
						// a completed Close is recorded in the flag `done` (not in the error field)
						if is, ok := nd.(*ast.IfStmt); ok && strings.Contains(exprStr(is.Cond), ".done") {
							sent = append(sent, "done")
						}
						if be, ok := nd.(*ast.BinaryExpr); ok && (be.Op == token.EQL || be.Op == token.NEQ) {
							l, r := exprStr(be.X), exprStr(be.Y)
							if strings.HasSuffix(l, ".err") && r != "nil" {
								sent = append(sent, be.Op.String()+r)
							}
						}
						return true
					})
					sort.Strings(sent)
					guards = append(guards, fmt.Sprintf("  ⟨%q, %q, %q, %v, %s⟩", p.name, recv, fd.Name.Name, guarded, leanStrList(uniq(sent))))
				}
			}
		}
		var gn []string
		for n := range glob {
			gn = append(gn, n)
		}
		sort.Strings(gn)
		for _, n := range gn {
			globals = append(globals, fmt.Sprintf("  ⟨%q, %q, %s, %s⟩", p.name, n, leanStrList(keys(writes[n])), leanStrList(keys(addrs[n]))))
		}
	}
	s.WriteString("def errSites : List ErrSite := [\n" + strings.Join(errSites, ",\n") + "\n]\n\n")
	s.WriteString("def resetFacts : List ResetFact := [\n" + strings.Join(resets, ",\n") + "\n]\n\n")
	s.WriteString("def guardFacts : List GuardFact := [\n" + strings.Join(guards, ",\n") + "\n]\n\n")
	s.WriteString("def globalFacts : List GlobalFact := [\n" + strings.Join(globals, ",\n") + "\n]\n\n")
	s.WriteString("end Compress.Generated\n")
	write(*outDir, "Sites.lean", s.String())
	fmt.Printf("extract: %d error sites, %d reset/init facts, %d guard facts, %d globals\n", len(errSites), len(resets), len(guards), len(globals))
}

func parenNeg(s string) string {
	if strings.HasPrefix(s, "-") {
		return "(" + s + ")"
	}
	return s
}
func mapNeg(l []string) []string {
	out := make([]string, len(l))
	for i, s := range l {
		out[i] = parenNeg(s)
	}
	return out
}

func write(dir, name, content string) {
	if err := os.WriteFile(filepath.Join(dir, name), []byte(content), 0o644); err != nil {
		fatal(err)
	}
}

func typeName(e ast.Expr) string {
	switch x := e.(type) {
	case *ast.StarExpr:
		return "*" + typeName(x.X)
	case *ast.Ident:
		return x.Name
	}
	return "?"
}

func rootIdent(e ast.Expr) *ast.Ident {
	for {
		switch x := e.(type) {
		case *ast.Ident:
			return x
		case *ast.SelectorExpr:
			e = x.X
		case *ast.IndexExpr:
			e = x.X
		case *ast.ParenExpr:
			e = x.X
		case *ast.StarExpr:
			e = x.X
		default:
			return nil
		}
	}
}

func callName(e ast.Expr) string {
	switch x := e.(type) {
	case *ast.Ident:
		return x.Name
	case *ast.SelectorExpr:
		return x.Sel.Name
	}
	return ""
}

func exprStr(e ast.Expr) string {
	switch x := e.(type) {
	case nil:
		return ""
	case *ast.Ident:
		return x.Name
	case *ast.SelectorExpr:
		return exprStr(x.X) + "." + x.Sel.Name
	case *ast.BasicLit:
		return x.Value
	case *ast.StarExpr:
		return "*" + exprStr(x.X)
	case *ast.UnaryExpr:
		return x.Op.String() + exprStr(x.X)
	case *ast.BinaryExpr:
		return exprStr(x.X) + x.Op.String() + exprStr(x.Y)
	case *ast.ParenExpr:
		return "(" + exprStr(x.X) + ")"
	case *ast.CallExpr:
		var as []string
		for _, a := range x.Args {
			as = append(as, exprStr(a))
		}
		return exprStr(x.Fun) + "(" + strings.Join(as, ",") + ")"
	case *ast.IndexExpr:
		return exprStr(x.X) + "[" + exprStr(x.Index) + "]"
	case *ast.SliceExpr:
		return exprStr(x.X) + "[" + exprStr(x.Low) + ":" + exprStr(x.High) + "]"
	case *ast.CompositeLit:
		return exprStr(x.Type) + "{…}"
	case *ast.FuncLit:
		return "func{…}"
	case *ast.ArrayType:
		return "[]" + exprStr(x.Elt)
	}
	return "?"
}

func leanStrList(l []string) string {
	var q []string
	for _, s := range l {
		q = append(q, fmt.Sprintf("%q", s))
	}
	return "[" + strings.Join(q, ", ") + "]"
}

func keys(m map[string]bool) []string {
	var out []string
	for k := range m {
		out = append(out, k)
	}
	sort.Strings(out)
	return out
}

func uniq(l []string) []string {
	var out []string
	for i, s := range l {
		if i == 0 || s != l[i-1] {
			out = append(out, s)
		}
	}
	return out
}
