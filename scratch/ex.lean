import Compress.Props.C13
open Compress Compress.Bzip2 Compress.XFlate Compress.Proofs.BzWApi

def exS0 : BzW := BzW.reset { level := 1, rle := { cap := 0 } } { budget := some 5, mode := .short, forever := true }
def exFailed : BzW := (BzW.run exS0 [.close]).1

set_option maxRecDepth 100000 in
example : exFailed.bw.sink.failed = true ∧ exFailed.err = some (.other 7) ∧ exFailed.done = false ∧
    exFailed.bw.sink.got = [0x42, 0x5a, 0x68, 0x31, 0x17] ∧ exFailed.outOff = 5 := by decide
