#!/bin/bash
# usage: runfam.sh FAMILY [tier] [seed]
export GOFLAGS=-mod=mod GOPROXY=off GOSUMDB=off GOTOOLCHAIN=local
set -e
cd /tmp/w-bzwapi/harness
go build -tags verif -o /tmp/w-bzwapi/scratch/zverif ./cmd/zverif
out=/tmp/w-bzwapi/scratch/run-$1-${2:-quick}-${3:-1}
rm -rf $out; mkdir -p $out
t0=$(date +%s.%N)
/tmp/w-bzwapi/scratch/zverif -family $1 -tier ${2:-quick} -seed ${3:-1} -out $out | tail -3
t1=$(date +%s.%N)
BROTLI_DICT=/tmp/w-bzwapi/build/brotli_dict.bin /tmp/w-bzwapi/lean/.lake/build/bin/modeld < $out/$1.scn > $out/$1.model
t2=$(date +%s.%N)
echo "go $(echo "$t1-$t0"|bc) model $(echo "$t2-$t1"|bc)"
wc -l $out/$1.scn $out/$1.impl $out/$1.model | head -3
python3 - $out $1 <<'PY'
import sys,json
d,f=sys.argv[1],sys.argv[2]
il=open(f"{d}/{f}.impl").read().splitlines(); ml=open(f"{d}/{f}.model").read().splitlines(); sl=open(f"{d}/{f}.scn").read().splitlines()
nd=0
for i,(a,b) in enumerate(zip(il,ml)):
    if a!=b:
        nd+=1
        if nd<=4:
            print("DIFF scn:",sl[i][:600]); 
            aa=a.split(" ",1)[1].split("|"); bb=b.split(" ",1)[1].split("|")
            for x,y in zip(aa,bb):
                print("  ", "==" if x==y else "!=", x[:150], "||", y[:150])
print("diffs",nd,"of",len(il), "lenmismatch" if len(il)!=len(ml) else "")
st=json.load(open(f"{d}/{f}.stats.json"))
print("violations",len(st.get("violations") or []))
for v in (st.get("violations") or [])[:5]: print(v["property"],v["what"][:200],v["input"][:300])
PY
